#!/usr/bin/env python3
"""Writes /verif/seeded/<id>/meta.json from the agent's meta (meta.agent.json) plus what I ran.
usage: seed_meta.py <id> <caught_by> <result text> [checked_with]"""
import json, sys, os
sid, caught, result = sys.argv[1], sys.argv[2], sys.argv[3]
d = "/verif/seeded/" + sid
a = json.load(open(d + "/meta.agent.json"))
prop = a.get("property", sid[:3])
m = {"property": prop, "summary": a.get("summary", ""), "needs": a.get("needs", ""), "files": a.get("files", []),
     "confirmed": "seed_confirm.sh %s: existing suite (default and --features decode) passes with the change; demo.rs fails with the change and passes without it (scratch worktree /tmp/seed/%s)" % (sid, sid),
     "checked_with": sys.argv[4] if len(sys.argv) > 4 else "VERIF_REPO=/tmp/seed/%s python3 check.py %s (scratch worktree with patch.diff applied; equivalent to git -C /repo apply)" % (sid, prop),
     "caught_by": caught, "result": result, "agent_report": a.get("agent_report", [])}
json.dump(m, open(d + "/meta.json", "w"), indent=1)
os.remove(d + "/meta.agent.json")
print("wrote", d + "/meta.json")
