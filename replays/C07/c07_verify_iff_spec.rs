// harness c07_verify_iff_spec (property C07) failed in the solver on d7f8bd75a260d6abe84e4f0363e17873c460cbdc+dirty
// failed checks: [{"description": "assertion failed: ok == want", "function": "config::verif_kani::c07_verify_iff_spec", "file": "config.rs", "line": "86"}]
// the harness uses code stubs, so the violation is confirmed by the native property-level oracle
// test `c07_oracle_boundary_grid` in /verif/harness/native/config.rs (fails = reproduced): True
//@replay-harness: c07_verify_iff_spec
//@replay-oracle: c07_oracle_boundary_grid
// panicked at /var/tmp/flacenc-verif-c07-xykzdmat/shadow/verif_harness/native/config.rs:102:5: | verify() disagrees with the documented ranges for (first 12): ["fixed.max_order=0 & ApproxEnt.partitions=0", "fixed.max_order=0 & ApproxEnt.partitions=65", "fixed.max_order=0 & ApproxEnt.partitions=255", "fixed.max_order=0 & ApproxEnt.partitions=256", "fixed.max_order=0 & ApproxEnt.partitions=65535", "fixed.max_order=0 & ApproxEnt.partitions=65536", "fixed.max_order=0 & ApproxEnt.partitions=18446744073709551615"]
