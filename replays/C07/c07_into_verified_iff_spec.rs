// harness c07_into_verified_iff_spec (property C07) failed in the solver on d7f8bd75a260d6abe84e4f0363e17873c460cbdc+dirty
// failed checks: [{"description": "assertion failed: want", "function": "config::verif_kani::c07_into_verified_iff_spec", "file": "config.rs", "line": "107"}]
// the harness uses code stubs, so the violation is confirmed by the native property-level oracle
// test `c07_oracle_boundary_grid` in /verif/harness/native/config.rs (fails = reproduced): False
//@replay-harness: c07_into_verified_iff_spec
//@replay-oracle: c07_oracle_boundary_grid
