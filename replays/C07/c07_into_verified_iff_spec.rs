// counterexample for harness c07_into_verified_iff_spec (property C07) found by CBMC on ee02f25c5b3ee4cba9a5ba509b3c5ebf352b79c3
// failed checks: [{"description": "assertion failed: want", "function": "config::verif_kani::c07_into_verified_iff_spec", "file": "config.rs", "line": "105"}]
// native replay (test fails = reproduced): {"kani_concrete_playback_c07_into_verified_iff_spec_1659094140961114547": {"dev": true, "release": null}, "kani_concrete_playback_c07_into_verified_iff_spec_5685308760832477727": {"dev": false, "release": null}}
// replay: /verif/check.py --replay /verif/replays/C07/c07_into_verified_iff_spec.rs
//@replay-harness: c07_into_verified_iff_spec
/// Test generated for harness `config::verif_kani::c07_into_verified_iff_spec` 
///
/// Check for `assertion`: "assertion failed: want"
///
/// # Warning
///
/// Concrete playback tests combined with stubs or contracts is highly
/// experimental, and subject to change.
///
/// The original harness has stubs which are not applied to this test.
/// This may cause a mismatch of non-deterministic values if the stub
/// creates any non-deterministic value.
/// The execution path may also differ, which can be used to refine the stub
/// logic.

#[test]
fn kani_concrete_playback_c07_into_verified_iff_spec_1659094140961114547() {
    let concrete_vals: Vec<Vec<u8>> = vec![
        // 18446744069431427329ul
        vec![1, 1, 1, 1, 255, 255, 255, 255],
        // 32767ul
        vec![255, 127, 0, 0, 0, 0, 0, 0],
        // 0
        vec![0],
        // 0
        vec![0],
        // 0
        vec![0],
        // 0
        vec![0],
        // 1
        vec![1],
        // 1
        vec![1],
        // 0
        vec![0],
        // 4611686014132420608ul
        vec![0, 0, 0, 0, 255, 255, 255, 63],
        // 0
        vec![0],
        // 3ul
        vec![3, 0, 0, 0, 0, 0, 0, 0],
        // 15ul
        vec![15, 0, 0, 0, 0, 0, 0, 0],
        // 1ul
        vec![1, 0, 0, 0, 0, 0, 0, 0],
        // 0
        vec![0],
        // 0ul
        vec![0, 0, 0, 0, 0, 0, 0, 0],
        // 1
        vec![1],
        // 14ul
        vec![14, 0, 0, 0, 0, 0, 0, 0],
    ];
    kani::concrete_playback_run(concrete_vals, c07_into_verified_iff_spec);
}

/// Test generated for harness `config::verif_kani::c07_into_verified_iff_spec` 
///
/// Check for `cover`: "cover condition: true"
///
/// # Warning
///
/// Concrete playback tests combined with stubs or contracts is highly
/// experimental, and subject to change.
///
/// The original harness has stubs which are not applied to this test.
/// This may cause a mismatch of non-deterministic values if the stub
/// creates any non-deterministic value.
/// The execution path may also differ, which can be used to refine the stub
/// logic.

#[test]
fn kani_concrete_playback_c07_into_verified_iff_spec_5685308760832477727() {
    let concrete_vals: Vec<Vec<u8>> = vec![
        // 18446744073709551615ul
        vec![255, 255, 255, 255, 255, 255, 255, 255],
        // 32767ul
        vec![255, 127, 0, 0, 0, 0, 0, 0],
        // 1
        vec![1],
        // 1
        vec![1],
        // 1
        vec![1],
        // 1
        vec![1],
        // 1
        vec![1],
        // 1
        vec![1],
        // 1
        vec![1],
        // 3ul
        vec![3, 0, 0, 0, 0, 0, 0, 0],
        // 1
        vec![1],
        // 15ul
        vec![15, 0, 0, 0, 0, 0, 0, 0],
        // 15ul
        vec![15, 0, 0, 0, 0, 0, 0, 0],
        // 0
        vec![0],
        // 0ul
        vec![0, 0, 0, 0, 0, 0, 0, 0],
        // 1
        vec![1],
        // 7ul
        vec![7, 0, 0, 0, 0, 0, 0, 0],
    ];
    kani::concrete_playback_run(concrete_vals, c07_into_verified_iff_spec);
}

