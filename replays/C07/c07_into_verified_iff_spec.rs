// harness c07_into_verified_iff_spec (property C07) failed in the solver on 79f96efe2527a737c3734099f028874ccab69f11+dirty
// failed checks: [{"description": "assertion failed: want", "function": "config::verif_kani::c07_into_verified_iff_spec", "file": "config.rs", "line": "107"}]
// the harness uses code stubs, so the violation is confirmed by the native property-level oracle
// test `c07_oracle_boundary_grid` in /verif/harness/native/config.rs (fails = reproduced): True
//@replay-harness: c07_into_verified_iff_spec
//@replay-oracle: c07_oracle_boundary_grid
// panicked at /var/tmp/flacenc-verif-c07-o1wam35x/shadow/verif_harness/native/config.rs:88:5: | verify() disagrees with the documented ranges for: ["alpha=NaN"]
