// counterexample for harness c13_l2_merge_saturates (property C13) found by CBMC on e91332e21a5a10f6e845e050ee2b2ef9da6fae3b
// failed checks: [{"description": "assertion failed: m.p_to_bits[p] as u64 == want", "function": "rice::verif_kani::c13_l2_merge_saturates", "file": "rice.rs", "line": "114"}]
// native replay (test fails = reproduced): {"kani_concrete_playback_c13_l2_merge_saturates_328099209131692707": {"dev": true, "release": null}, "kani_concrete_playback_c13_l2_merge_saturates_17439049395484704812": {"dev": false, "release": null}, "kani_concrete_playback_c13_l2_merge_saturates_16717284434353470548": {"dev": false, "release": null}}
// replay: /verif/check.py --replay /verif/replays/C13/c13_l2_merge_saturates.rs
//@replay-harness: c13_l2_merge_saturates
/// Test generated for harness `rice::verif_kani::c13_l2_merge_saturates` 
///
/// Check for `assertion`: "assertion failed: m.p_to_bits[p] as u64 == want"

#[test]
fn kani_concrete_playback_c13_l2_merge_saturates_328099209131692707() {
    let concrete_vals: Vec<Vec<u8>> = vec![
        // 201326591
        vec![255, 255, 255, 11],
        // 134217727
        vec![255, 255, 255, 7],
        // 134217727
        vec![255, 255, 255, 7],
        // 268435455
        vec![255, 255, 255, 15],
        // 134217727
        vec![255, 255, 255, 7],
        // 134217727
        vec![255, 255, 255, 7],
        // 134217727
        vec![255, 255, 255, 7],
        // 134217727
        vec![255, 255, 255, 7],
        // 134217727
        vec![255, 255, 255, 7],
        // 134217727
        vec![255, 255, 255, 7],
        // 134217727
        vec![255, 255, 255, 7],
        // 134217727
        vec![255, 255, 255, 7],
        // 134217727
        vec![255, 255, 255, 7],
        // 134217727
        vec![255, 255, 255, 7],
        // 134217727
        vec![255, 255, 255, 7],
        // 134217727
        vec![255, 255, 255, 7],
        // 67108864
        vec![0, 0, 0, 4],
        // 134217727
        vec![255, 255, 255, 7],
        // 134217727
        vec![255, 255, 255, 7],
        // 4
        vec![4, 0, 0, 0],
        // 134217728
        vec![0, 0, 0, 8],
        // 134217728
        vec![0, 0, 0, 8],
        // 134217728
        vec![0, 0, 0, 8],
        // 134217728
        vec![0, 0, 0, 8],
        // 134217728
        vec![0, 0, 0, 8],
        // 134217728
        vec![0, 0, 0, 8],
        // 134217728
        vec![0, 0, 0, 8],
        // 134217728
        vec![0, 0, 0, 8],
        // 134217728
        vec![0, 0, 0, 8],
        // 134217728
        vec![0, 0, 0, 8],
        // 134217728
        vec![0, 0, 0, 8],
        // 134217747
        vec![19, 0, 0, 8],
    ];
    kani::concrete_playback_run(concrete_vals, c13_l2_merge_saturates);
}

/// Test generated for harness `rice::verif_kani::c13_l2_merge_saturates` 
///
/// Check for `cover`: "cover condition: a.p_to_bits[3] as u64 == SAT && b.p_to_bits[3] == 4"

#[test]
fn kani_concrete_playback_c13_l2_merge_saturates_17439049395484704812() {
    let concrete_vals: Vec<Vec<u8>> = vec![
        // 201326591
        vec![255, 255, 255, 11],
        // 134217727
        vec![255, 255, 255, 7],
        // 134217727
        vec![255, 255, 255, 7],
        // 268435455
        vec![255, 255, 255, 15],
        // 134217727
        vec![255, 255, 255, 7],
        // 134217727
        vec![255, 255, 255, 7],
        // 134217727
        vec![255, 255, 255, 7],
        // 134217727
        vec![255, 255, 255, 7],
        // 134217727
        vec![255, 255, 255, 7],
        // 134217727
        vec![255, 255, 255, 7],
        // 134217727
        vec![255, 255, 255, 7],
        // 134217727
        vec![255, 255, 255, 7],
        // 134217727
        vec![255, 255, 255, 7],
        // 134217727
        vec![255, 255, 255, 7],
        // 134217727
        vec![255, 255, 255, 7],
        // 134217727
        vec![255, 255, 255, 7],
        // 67108864
        vec![0, 0, 0, 4],
        // 134217727
        vec![255, 255, 255, 7],
        // 134217727
        vec![255, 255, 255, 7],
        // 4
        vec![4, 0, 0, 0],
        // 134217728
        vec![0, 0, 0, 8],
        // 134217728
        vec![0, 0, 0, 8],
        // 134217728
        vec![0, 0, 0, 8],
        // 134217728
        vec![0, 0, 0, 8],
        // 134217728
        vec![0, 0, 0, 8],
        // 134217728
        vec![0, 0, 0, 8],
        // 134217728
        vec![0, 0, 0, 8],
        // 134217728
        vec![0, 0, 0, 8],
        // 134217728
        vec![0, 0, 0, 8],
        // 134217728
        vec![0, 0, 0, 8],
        // 134217728
        vec![0, 0, 0, 8],
        // 134217728
        vec![0, 0, 0, 8],
    ];
    kani::concrete_playback_run(concrete_vals, c13_l2_merge_saturates);
}

/// Test generated for harness `rice::verif_kani::c13_l2_merge_saturates` 
///
/// Check for `cover`: "cover condition: a.p_to_bits[0] > (1 << 27) && b.p_to_bits[0] > (1 << 27)"

#[test]
fn kani_concrete_playback_c13_l2_merge_saturates_16717284434353470548() {
    let concrete_vals: Vec<Vec<u8>> = vec![
        // 134217729
        vec![1, 0, 0, 8],
        // 4
        vec![4, 0, 0, 0],
        // 4
        vec![4, 0, 0, 0],
        // 4
        vec![4, 0, 0, 0],
        // 4
        vec![4, 0, 0, 0],
        // 4
        vec![4, 0, 0, 0],
        // 4
        vec![4, 0, 0, 0],
        // 4
        vec![4, 0, 0, 0],
        // 4
        vec![4, 0, 0, 0],
        // 4
        vec![4, 0, 0, 0],
        // 4
        vec![4, 0, 0, 0],
        // 4
        vec![4, 0, 0, 0],
        // 4
        vec![4, 0, 0, 0],
        // 4
        vec![4, 0, 0, 0],
        // 4
        vec![4, 0, 0, 0],
        // 4
        vec![4, 0, 0, 0],
        // 134217730
        vec![2, 0, 0, 8],
        // 268435455
        vec![255, 255, 255, 15],
        // 268435455
        vec![255, 255, 255, 15],
        // 268435455
        vec![255, 255, 255, 15],
        // 268435455
        vec![255, 255, 255, 15],
        // 268435455
        vec![255, 255, 255, 15],
        // 268435455
        vec![255, 255, 255, 15],
        // 268435455
        vec![255, 255, 255, 15],
        // 268435455
        vec![255, 255, 255, 15],
        // 268435455
        vec![255, 255, 255, 15],
        // 268435455
        vec![255, 255, 255, 15],
        // 268435455
        vec![255, 255, 255, 15],
        // 268435455
        vec![255, 255, 255, 15],
        // 268435455
        vec![255, 255, 255, 15],
        // 268435455
        vec![255, 255, 255, 15],
        // 268435455
        vec![255, 255, 255, 15],
    ];
    kani::concrete_playback_run(concrete_vals, c13_l2_merge_saturates);
}

