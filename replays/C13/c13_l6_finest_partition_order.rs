// counterexample for harness c13_l6_finest_partition_order (property C13) found by CBMC on e91332e21a5a10f6e845e050ee2b2ef9da6fae3b
// failed checks: [{"description": "attempt to subtract with overflow", "function": "rice::finest_partition_order", "file": "rice.rs", "line": "125"}]
// native replay (test fails = reproduced): {"kani_concrete_playback_c13_l6_finest_partition_order_2114315319768665053": {"dev": true, "release": null}, "kani_concrete_playback_c13_l6_finest_partition_order_15948433366970950972": {"dev": false, "release": null}, "kani_concrete_playback_c13_l6_finest_partition_order_11189216133540658429": {"dev": false, "release": null}}
// replay: /verif/check.py --replay /verif/replays/C13/c13_l6_finest_partition_order.rs
//@replay-harness: c13_l6_finest_partition_order
/// Test generated for harness `rice::verif_kani::c13_l6_finest_partition_order` 
///
/// Check for `assertion`: "attempt to subtract with overflow"

#[test]
fn kani_concrete_playback_c13_l6_finest_partition_order_2114315319768665053() {
    let concrete_vals: Vec<Vec<u8>> = vec![
        // 384ul
        vec![128, 1, 0, 0, 0, 0, 0, 0],
        // 894ul
        vec![126, 3, 0, 0, 0, 0, 0, 0],
    ];
    kani::concrete_playback_run(concrete_vals, c13_l6_finest_partition_order);
}

/// Test generated for harness `rice::verif_kani::c13_l6_finest_partition_order` 
///
/// Check for `cover`: "cover condition: o == 6 && size == 4096"

#[test]
fn kani_concrete_playback_c13_l6_finest_partition_order_15948433366970950972() {
    let concrete_vals: Vec<Vec<u8>> = vec![
        // 4096ul
        vec![0, 16, 0, 0, 0, 0, 0, 0],
        // 64ul
        vec![64, 0, 0, 0, 0, 0, 0, 0],
    ];
    kani::concrete_playback_run(concrete_vals, c13_l6_finest_partition_order);
}

/// Test generated for harness `rice::verif_kani::c13_l6_finest_partition_order` 
///
/// Check for `cover`: "cover condition: o == 0 && size == 4097"

#[test]
fn kani_concrete_playback_c13_l6_finest_partition_order_11189216133540658429() {
    let concrete_vals: Vec<Vec<u8>> = vec![
        // 4097ul
        vec![1, 16, 0, 0, 0, 0, 0, 0],
        // 4096ul
        vec![0, 16, 0, 0, 0, 0, 0, 0],
    ];
    kani::concrete_playback_run(concrete_vals, c13_l6_finest_partition_order);
}

