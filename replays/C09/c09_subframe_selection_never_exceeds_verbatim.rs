// harness c09_subframe_selection_never_exceeds_verbatim (property C09) failed in the solver on 7135babf284f6366cb70352ebb4e4c3320fab254+dirty
// failed checks: [{"description": "assertion failed: bits <= verbatim_bits + 16", "function": "coding::verif_kani::c09_subframe_selection_never_exceeds_verbatim", "file": "coding.rs", "line": "69"}]
// the harness uses code stubs, so the violation is confirmed by the native property-level oracle
// test `c09_oracle_noise_restricted_rice` in /verif/harness/native/coding.rs (fails = reproduced): True
//@replay-harness: c09_subframe_selection_never_exceeds_verbatim
//@replay-oracle: c09_oracle_noise_restricted_rice
// panicked at /var/tmp/flacenc-verif-c09-g3xd4rw9/shadow/verif_harness/native/coding.rs:40:5: | frame larger than verbatim: Some((17032, 1111, "max_parameter=2 bitcount=false block=64"))
