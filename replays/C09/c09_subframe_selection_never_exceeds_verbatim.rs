// harness c09_subframe_selection_never_exceeds_verbatim (property C09) failed in the solver on e91332e21a5a10f6e845e050ee2b2ef9da6fae3b+dirty
// failed checks: [{"description": "assertion failed: bits <= verbatim_bits + 16", "function": "coding::verif_kani::c09_subframe_selection_never_exceeds_verbatim", "file": "coding.rs", "line": "69"}]
// the harness uses code stubs, so the violation is confirmed by the native property-level oracle
// test `c09_oracle_noise_restricted_rice` in /verif/harness/native/coding.rs (fails = reproduced): True
//@replay-harness: c09_subframe_selection_never_exceeds_verbatim
//@replay-oracle: c09_oracle_noise_restricted_rice
// panicked at /var/tmp/flacenc-verif-c09-ll02m3um/shadow/verif_harness/native/coding.rs:40:5: | frame larger than verbatim: Some((17032, 1111, "max_parameter=2 bitcount=false block=64"))
