// counterexample for harness c11_u64_lsbs_zero_width (property C11) found by CBMC on 19199d72e07f2c7a2ccc2d8b70d60f1a22fc8752
// failed checks: [{"description": "attempt to shift left with overflow", "function": "<u8 as std::ops::Shl<usize>>::shl", "file": "bit.rs", "line": "490"}, {"description": "attempt to shift left with overflow", "function": "<u64 as std::ops::Shl<usize>>::shl", "file": "bit.rs", "line": "490"}, {"description": "attempt to shift left with overflow", "function": "<u32 as std::ops::Shl<usize>>::shl", "file": "bit.rs", "line": "490"}]
// native replay (test fails = reproduced): {"kani_concrete_playback_c11_u64_lsbs_zero_width_15659232898744672886": {"dev": true, "release": null}, "kani_concrete_playback_c11_u64_lsbs_zero_width_5491432034208912466": {"dev": true, "release": null}, "kani_concrete_playback_c11_u64_lsbs_zero_width_7130942325103713736": {"dev": true, "release": null}}
// replay: /verif/check.py --replay /verif/replays/C11/c11_u64_lsbs_zero_width.rs
//@replay-harness: c11_u64_lsbs_zero_width
/// Test generated for harness `bitsink::verif_kani::c11_u64_lsbs_zero_width` 
///
/// Check for `assertion`: "attempt to shift left with overflow"

#[test]
fn kani_concrete_playback_c11_u64_lsbs_zero_width_15659232898744672886() {
    let concrete_vals: Vec<Vec<u8>> = vec![
        // 128
        vec![128],
        // 128ul
        vec![128, 0, 0, 0, 0, 0, 0, 0],
        // 0ul
        vec![0, 0, 0, 0, 0, 0, 0, 0],
        // 0ul
        vec![0, 0, 0, 0, 0, 0, 0, 0],
        // 0
        vec![0],
        // 0
        vec![0],
    ];
    kani::concrete_playback_run(concrete_vals, c11_u64_lsbs_zero_width);
}

/// Test generated for harness `bitsink::verif_kani::c11_u64_lsbs_zero_width` 
///
/// Check for `assertion`: "attempt to shift left with overflow"

#[test]
fn kani_concrete_playback_c11_u64_lsbs_zero_width_5491432034208912466() {
    let concrete_vals: Vec<Vec<u8>> = vec![
        // 128
        vec![128],
        // 128ul
        vec![128, 0, 0, 0, 0, 0, 0, 0],
        // 0ul
        vec![0, 0, 0, 0, 0, 0, 0, 0],
        // 0ul
        vec![0, 0, 0, 0, 0, 0, 0, 0],
        // 128
        vec![128],
        // 0ul
        vec![0, 0, 0, 0, 0, 0, 0, 0],
    ];
    kani::concrete_playback_run(concrete_vals, c11_u64_lsbs_zero_width);
}

/// Test generated for harness `bitsink::verif_kani::c11_u64_lsbs_zero_width` 
///
/// Check for `assertion`: "attempt to shift left with overflow"

#[test]
fn kani_concrete_playback_c11_u64_lsbs_zero_width_7130942325103713736() {
    let concrete_vals: Vec<Vec<u8>> = vec![
        // 128
        vec![128],
        // 128ul
        vec![128, 0, 0, 0, 0, 0, 0, 0],
        // 0ul
        vec![0, 0, 0, 0, 0, 0, 0, 0],
        // 0ul
        vec![0, 0, 0, 0, 0, 0, 0, 0],
        // 64
        vec![64],
        // 0
        vec![0, 0, 0, 0],
    ];
    kani::concrete_playback_run(concrete_vals, c11_u64_lsbs_zero_width);
}

