// harness c10_window_cache_key_is_injective (property C10) failed in the solver on 0aba19359eb3947b7662b91f49c90c18c30ac4f9
// failed checks: [{"description": "assertion failed: a == b", "function": "lpc::verif_kani::c10_window_cache_key_is_injective", "file": "lpc.rs", "line": "122"}]
// the harness uses code stubs, so the violation is confirmed by the native property-level oracle
// test `c10_oracle_window_cache_history` in /verif/harness/native/lpc.rs (fails = reproduced): True
//@replay-harness: c10_window_cache_key_is_injective
//@replay-oracle: c10_oracle_window_cache_history
// panicked at /var/tmp/flacenc-verif-c10-zamtne1h/shadow/verif_harness/native/lpc.rs:47:5: | stream bytes depend on the previously used window: [(0.6, 0.60001004), (0.63, 0.63001)]
