// harness c10_window_cache_key_is_injective (property C10) failed in the solver on d7f8bd75a260d6abe84e4f0363e17873c460cbdc+dirty
// failed checks: [{"description": "attempt to add with overflow", "function": "lpc::fingerprint_window", "file": "lpc.rs", "line": "137"}, {"description": "assertion failed: a == b", "function": "lpc::verif_kani::c10_window_cache_key_is_injective", "file": "lpc.rs", "line": "96"}]
// the harness uses code stubs, so the violation is confirmed by the native property-level oracle
// test `c10_oracle_window_cache_history` in /verif/harness/native/lpc.rs (fails = reproduced): True
//@replay-harness: c10_window_cache_key_is_injective
//@replay-oracle: c10_oracle_window_cache_history
// panicked at /var/tmp/flacenc-verif-c10-o8w_dsnf/shadow/verif_harness/native/lpc.rs:47:5: | stream bytes depend on the previously used window: [(0.45, 0.45001), (0.48000002, 0.48001003), (0.51, 0.51001), (0.54, 0.54001004), (0.57, 0.57001), (0.6, 0.60001004), (0.63, 0.63001)]
