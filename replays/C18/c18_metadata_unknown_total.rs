// counterexample for harness c18_metadata_unknown_total (property C18) found by CBMC on e91332e21a5a10f6e845e050ee2b2ef9da6fae3b
// failed checks: [{"description": "assertion failed: s[4] == data[0] && s[6] == data[2]", "function": "component::datatype::verif_kani::c18_metadata_unknown_total", "file": "datatype.rs", "line": "423"}]
// native replay (test fails = reproduced): {"kani_concrete_playback_c18_metadata_unknown_total_2109999053433308286": {"dev": false, "release": null}}
// replay: /verif/check.py --replay /verif/replays/C18/c18_metadata_unknown_total.rs
//@replay-harness: c18_metadata_unknown_total
/// Test generated for harness `component::datatype::verif_kani::c18_metadata_unknown_total` 
///
/// Check for `assertion`: "assertion failed: s[4] == data[0] && s[6] == data[2]"
///
/// # Warning
///
/// Concrete playback tests combined with stubs or contracts is highly
/// experimental, and subject to change.
///
/// The original harness has stubs which are not applied to this test.
/// This may cause a mismatch of non-deterministic values if the stub
/// creates any non-deterministic value.
/// The execution path may also differ, which can be used to refine the stub
/// logic.

#[test]
fn kani_concrete_playback_c18_metadata_unknown_total_2109999053433308286() {
    let concrete_vals: Vec<Vec<u8>> = vec![
        // 63
        vec![63],
        // 255
        vec![255],
        // 255
        vec![255],
        // 255
        vec![255],
        // 255
        vec![255],
        // 1
        vec![1],
    ];
    kani::concrete_playback_run(concrete_vals, c18_metadata_unknown_total);
}

