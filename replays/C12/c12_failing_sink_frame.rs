// counterexample for harness c12_failing_sink_frame (property C12) found by CBMC on bbed4001b893b2dea8a8f693b537f26ef3100e28
// failed checks: [{"description": "This is a placeholder message; Kani doesn't support message formatted at runtime", "function": "std::result::unwrap_failed", "file": "result.rs", "line": "1871"}]
// native replay (test fails = reproduced): {"kani_concrete_playback_c12_failing_sink_frame_3113096050227243268": {"dev": true, "release": null}, "kani_concrete_playback_c12_failing_sink_frame_14392891134020326689": {"dev": true, "release": null}}
// replay: /verif/check.py --replay /verif/replays/C12/c12_failing_sink_frame.rs
//@replay-harness: c12_failing_sink_frame
/// Test generated for harness `component::bitrepr::verif_kani::c12_failing_sink_frame` 
///
/// Check for `cover`: "cover condition: k + 1 == ops"
///
/// # Warning
///
/// Concrete playback tests combined with stubs or contracts is highly
/// experimental, and subject to change.
///
/// The original harness has stubs which are not applied to this test.
/// This may cause a mismatch of non-deterministic values if the stub
/// creates any non-deterministic value.
/// The execution path may also differ, which can be used to refine the stub
/// logic.

#[test]
fn kani_concrete_playback_c12_failing_sink_frame_3113096050227243268() {
    let concrete_vals: Vec<Vec<u8>> = vec![
        // 8ul
        vec![8, 0, 0, 0, 0, 0, 0, 0],
    ];
    kani::concrete_playback_run(concrete_vals, c12_failing_sink_frame);
}

/// Test generated for harness `component::bitrepr::verif_kani::c12_failing_sink_frame` 
///
/// Check for `assertion`: "This is a placeholder message; Kani doesn't support message formatted at runtime"
///
/// # Warning
///
/// Concrete playback tests combined with stubs or contracts is highly
/// experimental, and subject to change.
///
/// The original harness has stubs which are not applied to this test.
/// This may cause a mismatch of non-deterministic values if the stub
/// creates any non-deterministic value.
/// The execution path may also differ, which can be used to refine the stub
/// logic.

#[test]
fn kani_concrete_playback_c12_failing_sink_frame_14392891134020326689() {
    let concrete_vals: Vec<Vec<u8>> = vec![
        // 0ul
        vec![0, 0, 0, 0, 0, 0, 0, 0],
    ];
    kani::concrete_playback_run(concrete_vals, c12_failing_sink_frame);
}

