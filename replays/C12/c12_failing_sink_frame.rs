// counterexample for harness c12_failing_sink_frame (property C12) found by CBMC on 79f96efe2527a737c3734099f028874ccab69f11+dirty
// failed checks: [{"description": "assertion failed: is_sink_err", "function": "component::bitrepr::verif_kani::c12_failing_sink_frame", "file": "bitrepr.rs", "line": "882"}]
// native replay (test fails = reproduced): {"kani_concrete_playback_c12_failing_sink_frame_3113096050227243268": {"dev": true, "release": null}, "kani_concrete_playback_c12_failing_sink_frame_14392891134020326689": {"dev": true, "release": null}}
// replay: /verif/check.py --replay /verif/replays/C12/c12_failing_sink_frame.rs
//@replay-harness: c12_failing_sink_frame
/// Test generated for harness `component::bitrepr::verif_kani::c12_failing_sink_frame` 
///
/// Check for `assertion`: "assertion failed: is_sink_err"
///
/// # Warning
///
/// Concrete playback tests combined with stubs or contracts is highly
/// experimental, and subject to change.
///
/// The original harness has stubs which are not applied to this test.
/// This may cause a mismatch of non-deterministic values if the stub
/// creates any non-deterministic value.
/// The execution path may also differ, which can be used to refine the stub
/// logic.

#[test]
fn kani_concrete_playback_c12_failing_sink_frame_3113096050227243268() {
    let concrete_vals: Vec<Vec<u8>> = vec![
        // 8ul
        vec![8, 0, 0, 0, 0, 0, 0, 0],
    ];
    kani::concrete_playback_run(concrete_vals, c12_failing_sink_frame);
}

/// Test generated for harness `component::bitrepr::verif_kani::c12_failing_sink_frame` 
///
/// Check for `cover`: "cover condition: k == 0"
///
/// # Warning
///
/// Concrete playback tests combined with stubs or contracts is highly
/// experimental, and subject to change.
///
/// The original harness has stubs which are not applied to this test.
/// This may cause a mismatch of non-deterministic values if the stub
/// creates any non-deterministic value.
/// The execution path may also differ, which can be used to refine the stub
/// logic.

#[test]
fn kani_concrete_playback_c12_failing_sink_frame_14392891134020326689() {
    let concrete_vals: Vec<Vec<u8>> = vec![
        // 0ul
        vec![0, 0, 0, 0, 0, 0, 0, 0],
    ];
    kani::concrete_playback_run(concrete_vals, c12_failing_sink_frame);
}

