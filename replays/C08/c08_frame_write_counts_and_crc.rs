// counterexample for harness c08_frame_write_counts_and_crc (property C08) found by CBMC on dde0c91353eddd1c2418c9d446284d815aa369ef+dirty
// failed checks: [{"description": "assertion failed: bits % 8 == 0 && bits == 48 + 16", "function": "component::bitrepr::verif_kani::c08_frame_write_counts_and_crc", "file": "bitrepr.rs", "line": "862"}]
// native replay (test fails = reproduced): {"kani_concrete_playback_c08_frame_write_counts_and_crc_4836686286076046385": {"dev": true, "release": null}}
// replay: /verif/check.py --replay /verif/replays/C08/c08_frame_write_counts_and_crc.rs
//@replay-harness: c08_frame_write_counts_and_crc
/// Test generated for harness `component::bitrepr::verif_kani::c08_frame_write_counts_and_crc` 
///
/// Check for `assertion`: "assertion failed: bits % 8 == 0 && bits == 48 + 16"
///
/// # Warning
///
/// Concrete playback tests combined with stubs or contracts is highly
/// experimental, and subject to change.
///
/// The original harness has stubs which are not applied to this test.
/// This may cause a mismatch of non-deterministic values if the stub
/// creates any non-deterministic value.
/// The execution path may also differ, which can be used to refine the stub
/// logic.

#[test]
fn kani_concrete_playback_c08_frame_write_counts_and_crc_4836686286076046385() {
    let concrete_vals: Vec<Vec<u8>> = vec![
    ];
    kani::concrete_playback_run(concrete_vals, c08_frame_write_counts_and_crc);
}

