// counterexample for harness c14_fill_equiv_ch1_b2 (property C14) found by CBMC on a5645a105e9536ebcf3d2b14132619eb6f81dcdc
// failed checks: [{"description": "assertion failed: a.samples[ch * 32 + t] == 0 && b.samples[ch * 32 + t] == 0", "function": "source::verif_kani::fill_equiv::<1, 2, 2, 4, 2>", "file": "source.rs", "line": "117"}, {"description": "assertion failed: a.samples[ch * 32 + t] == 0 && b.samples[ch * 32 + t] == 0", "function": "source::verif_kani::fill_equiv::<1, 3, 2, 6, 3>", "file": "source.rs", "line": "117"}, {"description": "assertion failed: a.samples[ch * 32 + t] == 0 && b.samples[ch * 32 + t] == 0", "function": "source::verif_kani::fill_equiv::<1, 1, 2, 2, 1>", "file": "source.rs", "line": "117"}, {"description": "assertion failed: a.samples[ch * 32 + t] == 0 && b.samples[ch * 32 + t] == 0", "function": "source::verif_kani::fill_equiv::<1, 0, 2, 0, 0>", "file": "source.rs", "line": "117"}]
// native replay (test fails = reproduced): {"kani_concrete_playback_c14_fill_equiv_ch1_b2_16745510144337391617": {"dev": false, "release": null}, "kani_concrete_playback_c14_fill_equiv_ch1_b2_238451621039062622": {"dev": true, "release": null}, "kani_concrete_playback_c14_fill_equiv_ch1_b2_5084036682542601301": {"dev": true, "release": null}, "kani_concrete_playback_c14_fill_equiv_ch1_b2_17385503662175514807": {"dev": true, "release": null}, "kani_concrete_playback_c14_fill_equiv_ch1_b2_1524255240005187199": {"dev": true, "release": null}}
// replay: /verif/check.py --replay /verif/replays/C14/c14_fill_equiv_ch1_b2.rs
//@replay-harness: c14_fill_equiv_ch1_b2
/// Test generated for harness `source::verif_kani::c14_fill_equiv_ch1_b2` 
///
/// Check for `cover`: "cover condition: c"
///
/// # Warning
///
/// Concrete playback tests combined with stubs or contracts is highly
/// experimental, and subject to change.
///
/// The original harness has stubs which are not applied to this test.
/// This may cause a mismatch of non-deterministic values if the stub
/// creates any non-deterministic value.
/// The execution path may also differ, which can be used to refine the stub
/// logic.

#[test]
fn kani_concrete_playback_c14_fill_equiv_ch1_b2_16745510144337391617() {
    let concrete_vals: Vec<Vec<u8>> = vec![
        // 0
        vec![0],
        // 0
        vec![0, 0, 0, 0],
        // 31ul
        vec![31, 0, 0, 0, 0, 0, 0, 0],
        // 32ul
        vec![32, 0, 0, 0, 0, 0, 0, 0],
    ];
    kani::concrete_playback_run(concrete_vals, c14_fill_equiv_ch1_b2);
}

/// Test generated for harness `source::verif_kani::c14_fill_equiv_ch1_b2` 
///
/// Check for `assertion`: "assertion failed: a.samples[ch * 32 + t] == 0 && b.samples[ch * 32 + t] == 0"
///
/// # Warning
///
/// Concrete playback tests combined with stubs or contracts is highly
/// experimental, and subject to change.
///
/// The original harness has stubs which are not applied to this test.
/// This may cause a mismatch of non-deterministic values if the stub
/// creates any non-deterministic value.
/// The execution path may also differ, which can be used to refine the stub
/// logic.

#[test]
fn kani_concrete_playback_c14_fill_equiv_ch1_b2_238451621039062622() {
    let concrete_vals: Vec<Vec<u8>> = vec![
        // 0
        vec![0],
        // 1
        vec![1, 0, 0, 0],
        // 7ul
        vec![7, 0, 0, 0, 0, 0, 0, 0],
        // 32ul
        vec![32, 0, 0, 0, 0, 0, 0, 0],
    ];
    kani::concrete_playback_run(concrete_vals, c14_fill_equiv_ch1_b2);
}

/// Test generated for harness `source::verif_kani::c14_fill_equiv_ch1_b2` 
///
/// Check for `assertion`: "assertion failed: a.samples[ch * 32 + t] == 0 && b.samples[ch * 32 + t] == 0"
///
/// # Warning
///
/// Concrete playback tests combined with stubs or contracts is highly
/// experimental, and subject to change.
///
/// The original harness has stubs which are not applied to this test.
/// This may cause a mismatch of non-deterministic values if the stub
/// creates any non-deterministic value.
/// The execution path may also differ, which can be used to refine the stub
/// logic.

#[test]
fn kani_concrete_playback_c14_fill_equiv_ch1_b2_5084036682542601301() {
    let concrete_vals: Vec<Vec<u8>> = vec![
        // 2
        vec![2],
        // 255
        vec![255],
        // 255
        vec![255],
        // 255
        vec![255],
        // 127
        vec![127],
        // 1
        vec![1, 0, 0, 0],
        // 3ul
        vec![3, 0, 0, 0, 0, 0, 0, 0],
        // 32ul
        vec![32, 0, 0, 0, 0, 0, 0, 0],
    ];
    kani::concrete_playback_run(concrete_vals, c14_fill_equiv_ch1_b2);
}

/// Test generated for harness `source::verif_kani::c14_fill_equiv_ch1_b2` 
///
/// Check for `assertion`: "assertion failed: a.samples[ch * 32 + t] == 0 && b.samples[ch * 32 + t] == 0"
///
/// # Warning
///
/// Concrete playback tests combined with stubs or contracts is highly
/// experimental, and subject to change.
///
/// The original harness has stubs which are not applied to this test.
/// This may cause a mismatch of non-deterministic values if the stub
/// creates any non-deterministic value.
/// The execution path may also differ, which can be used to refine the stub
/// logic.

#[test]
fn kani_concrete_playback_c14_fill_equiv_ch1_b2_17385503662175514807() {
    let concrete_vals: Vec<Vec<u8>> = vec![
        // 1
        vec![1],
        // 255
        vec![255],
        // 127
        vec![127],
        // 1
        vec![1, 0, 0, 0],
        // 1ul
        vec![1, 0, 0, 0, 0, 0, 0, 0],
        // 32ul
        vec![32, 0, 0, 0, 0, 0, 0, 0],
    ];
    kani::concrete_playback_run(concrete_vals, c14_fill_equiv_ch1_b2);
}

/// Test generated for harness `source::verif_kani::c14_fill_equiv_ch1_b2` 
///
/// Check for `assertion`: "assertion failed: a.samples[ch * 32 + t] == 0 && b.samples[ch * 32 + t] == 0"
///
/// # Warning
///
/// Concrete playback tests combined with stubs or contracts is highly
/// experimental, and subject to change.
///
/// The original harness has stubs which are not applied to this test.
/// This may cause a mismatch of non-deterministic values if the stub
/// creates any non-deterministic value.
/// The execution path may also differ, which can be used to refine the stub
/// logic.

#[test]
fn kani_concrete_playback_c14_fill_equiv_ch1_b2_1524255240005187199() {
    let concrete_vals: Vec<Vec<u8>> = vec![
        // 3
        vec![3],
        // 255
        vec![255],
        // 255
        vec![255],
        // 255
        vec![255],
        // 255
        vec![255],
        // 255
        vec![255],
        // 127
        vec![127],
        // 1
        vec![1, 0, 0, 0],
        // 4ul
        vec![4, 0, 0, 0, 0, 0, 0, 0],
        // 32ul
        vec![32, 0, 0, 0, 0, 0, 0, 0],
    ];
    kani::concrete_playback_run(concrete_vals, c14_fill_equiv_ch1_b2);
}

