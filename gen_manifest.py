#!/usr/bin/env python3
"""Generates /verif/MANIFEST.json from the table below (kept in one place so that the
manifest always validates).  Run after changing which properties are claimed."""
import json, os
V = os.path.dirname(os.path.abspath(__file__))
TB = ("Trusted: Kani 0.68 MIR->GOTO translation, CBMC 6.11 + CaDiCaL, Kani's models of Vec/Box, the cfg(kani) model of the "
      "`reusable!` thread-local buffers (leaked global RefCell), dev-profile semantics, the hand-written reference models in "
      "/verif/harness. Every harness bound is listed in the evidence file; behaviour outside the bounds is outside the claim.")
CLAIMED = {
 "C01": ("Lossless coding decided as a chain of function contracts, each checked by CBMC on the real function over all values inside its bound: Rice split/zig-zag invertible (complete), fixed-predictor residuals equal the RFC predictors from dirty scratch buffers, quantised-LPC residual equals the RFC formula on both integer paths (under the stated 32-bit-residual assumption), residual assembly reproduces every error value, and every subframe writer emits exactly the RFC 9639 bit layout (reference writer). The step from the links to whole 4096-sample blocks is an argument in DESIGN.md, not a solver result; round 2 adds the real per-channel dispatch of encode_frame_impl, the real mid/side transform of try_stereo_coding (RFC-invertible for every 24-bit pair), the recombination of stereo frames, the integer post-conditions of coefficient quantisation (shift 0..=15, coefficients fit the precision) and the library's own decoder (Decode for LPC/fixed/stereo frames) against the RFC reconstruction. The float analysis front end and whole frames with real subframes end-to-end are outside the bound.", "DESIGN.md sections 5 (C01), 9"),
 "C02": ("Header code spaces decided over their whole value space in single queries (every block size 1..65535, every sample rate < 2^20, every number < 2^36 in canonical UTF-8 form, sample-size and channel codes), table-driven CRC-8/CRC-16 kernels equal the bitwise RFC reference, the real FrameHeader::write / Frame::write / Stream::write glue on concrete-shaped headers decoded by an RFC reference decoder, partition-order limits for all block sizes, Rice parameters never reach the escape code (minimiser lemma), quantised LPC parameters fit the 4-bit precision / 5-bit non-negative shift fields. Symbolic whole-header writes are beyond CBMC (measured), hence the per-field decomposition.", "DESIGN.md sections 5 (C02), 9"),
 "C03": ("What reaches MD5 is decided by recording the padded message block at the (stubbed) compression function: integer fills, packed-byte fills and the reference little-endian serialisation give byte-identical blocks for all sample values (several formats); counters and empty input; STREAMINFO layout read back field by field. The thread interleavings of the asynchronous hashing thread are NOT covered (Kani has no thread model); the claim is for inputs and configurations only.", "DESIGN.md sections 5 (C03), 6, 9"),
 "C04": ("One accumulation step of StreamInfo::update_frame_info from an arbitrary state (all block-size codes, frame sizes) plus the real single-thread encode loop on short inputs with symbolic sample values (final short block and an input shorter than one block in the quick tier; more lengths incl. exact multiples and empty input in the thorough tier) checked against the RFC 9639 section 8.2 bounds. Input lengths are concrete per path (symbolic container lengths defeat CBMC); crate built without the `par` feature for this harness (Kani crashes on thread code).", "DESIGN.md sections 5 (C04), 9"),
 "C07": ("Exactness decided in one query over the entire 17-field configuration space (usize/bool/f32 incl. NaN/inf, both enum variants): verify() and into_verified() accept iff every field is in its documented range (literal numbers of the property). 'Accepted configurations never panic' is covered for the fields whose consumers are driven by other harnesses (C13 max parameter, C01 precision/shift, C10 window key); the float analysis is outside.", "DESIGN.md section 5 (C07)"),
 "C08": ("count_bits() == bits handed to a counting sink for every subframe kind with all field values symbolic (quotients over all of u32), cached residual sums exact on both sides of the 2^32 switch, header bit-count formula over the whole header space, real header writes with canonical and non-canonical (parser-produced) codes, STREAMINFO/metadata/stream/frame(header+footer) writes on a recording sink before and after bitstream precomputation. Frames containing subframes are outside the bound (Vec<SubFrame> defeats CBMC); MemSink length accounting is C11.", "DESIGN.md sections 5 (C08), 9"),
 "C09": ("The selection logic that bounds the frame size (encode_subframe, try_stereo_coding) is run with the candidate producers stubbed by subframes of ARBITRARY size, so the bound is decided for every estimator/order-selection behaviour and every switch combination; a solver failure is confirmed by a native property-level oracle through the public API. Round 2: the stereo choice is decided on the real try_stereo_coding cut at encode_frame_impl / recombine_stereo_frame (arbitrary subframe sizes, every switch combination: the chosen assignment is the minimum and never above left+right), and the recombination emits the pair of subframes the assignment names.", "DESIGN.md section 5 (C09)"),
 "C10": ("Per scratch buffer, one call from an arbitrary previous buffer state must give the argument-determined result: fixed-predictor error buffers, quantised-LPC error buffer, Rice parameter finder, frame buffer refill, and injectivity of the window-cache key over all accepted alphas (a collision is confirmed natively by encoding on a fresh thread vs. after the colliding call). Round 2 adds short real histories: header/frame writes after writes that failed part-way or were longer (CRC scratch sinks), a shorter byte fill after a longer one (conversion scratch). Cross-thread sequences are outside.", "DESIGN.md section 5 (C10)"),
 "C11": ("One-step lemmas from an arbitrary valid sink state (0..=2 elements, every bit offset, arbitrary content satisfying the representation invariant) for every operation x operand width on MemSink<u8> and MemSink<u64>, each compared with an independent 128-bit-window model by CBMC over all values; byte export; constructors; default trait methods on a minimal user sink. By induction over the invariant this covers every finite sequence of sink operations; the induction step itself is an argument in DESIGN.md, the solver decides each step.", "DESIGN.md section 5 (C11), 4.2"),
 "C12": ("A user sink failing on its k-th operation, k symbolic over every operation of the write, for frame header, metadata block, STREAMINFO, constant/verbatim/fixed subframes with residual, frame (header+footer, direct and precomputed) and stream: the write returns Err(Sink), never panics, and the accepted bits are a prefix of the full bitstream. Frames containing subframes are outside the bound.", "DESIGN.md sections 5 (C12), 9"),
 "C13": ("Contract chain on the real functions: from_errors lanes are the exact cost or saturated (all error values), merge saturates, minimizer is an admissible argmin, eval/merge over table slices, the search loop of find() over arbitrary tables returns the minimum over all partition orders, finest_partition_order defines the search space for every block size. Composition to arbitrary blocks is an argument in DESIGN.md; from_errors for partitions longer than the checked lengths is covered by the uniform chunk structure only.", "DESIGN.md section 5 (C13)"),
 "C14": ("For each channel-count specialisation and each bytes-per-sample converter: byte fill and integer fill of the sign-extended reference leave identical channel slices and fill level from a dirty buffer, for all byte values (fill lengths 0..3 in a 32-sample buffer), and a shorter byte fill after a longer one on the same buffer; identical MD5 input (C03 harness). simd-nightly specialisations are not the pinned build.", "DESIGN.md section 5 (C14)"),
 "C15": ("Writer -> parser round trips on the real nom parsers with symbolic field values where CBMC can follow (STREAMINFO, constant, verbatim, residual; numbers via the utf8 lemma) and on concrete-shaped frame headers: all input consumed, fields equal, re-serialisation identical, bit counts equal. Round 2 adds the decoding half: Decode for LPC and fixed subframes, residuals and the stereo un-mixing of frames equals the RFC 9639 reconstruction in 64-bit arithmetic (extreme coefficients, predictions beyond 32 bits), and headers with valid non-shortest codes re-serialise to the stored length. Whole frames/streams through the parser are outside the bound.", "DESIGN.md sections 5 (C15), 9"),
 "C16": ("No panic on arbitrary bytes for the sub-parsers CBMC can follow (utf8 number, block-size/sample-rate codes, subframe header, constant, verbatim, LPC parameters, unsupported LPC orders, reserved fixed-predictor type codes) and CRC-8/CRC-16 detect every burst of up to 8/16 bits at every position of a symbolic message, which is what the parser's CRC gate compares. Arbitrary bytes through the whole frame/stream parser are outside (measured infeasible).", "DESIGN.md sections 5 (C16), 9"),
 "C17": ("Free usize arguments (so every wrap-around value is in the query) for StreamInfo::new, FrameHeader::new, FrameBuf fills (every slice length / bytes-per-sample), Context fills, the sample-range check on partially filled multi-channel buffers, the frame-level entry point: Err, or Ok with the argument genuinely in the domain and stored without truncation; never a panic.", "DESIGN.md section 5 (C17)"),
 "C18": ("Every public constructor with free arguments (slices of concrete small lengths, all values): never panics; Ok implies verify() is Ok and the component satisfies the well-formedness predicate under which C08/C01 prove serialisation; setters; unknown metadata blocks written and checked byte by byte.", "DESIGN.md section 5 (C18)"),
}
NA = {
 "C05": "quantifies over thread interleavings of feeder/workers/hashing thread; Kani/CBMC do not model std::thread or crossbeam channels and no sequential projection of par.rs decides byte equality (DESIGN.md section 6)",
 "C06": "termination / failure propagation / thread leaks under faults are properties of blocking channel operations and joins across threads, which the solver-based tool chain here cannot encode (DESIGN.md section 6)",
 "C19": "subject is serde-derive output plus the toml 0.5 parser/printer: string/fmt/heap machinery with input-length loops, beyond what CBMC finishes; nothing arithmetic remains once stubbed (DESIGN.md section 6)",
 "C20": "a relation between different compilations (feature sets) of the crate; one solver run sees one compilation (DESIGN.md section 6)",
}
PENDING = "check not built yet in this round (planned, see DESIGN.md section 5); not claimed until its harnesses run clean"
ids = [json.loads(l)["id"] for l in open(os.path.join(V, "properties.jsonl"))]
checks, na = [], []
for i in ids:
    if i in CLAIMED:
        text, ref = CLAIMED[i]
        checks.append({
            "property_id": i,
            "quick_cmd": "python3 check.py %s --tier quick" % i,
            "thorough_cmd": "python3 check.py %s --tier thorough" % i,
            "evidence_file": "/verif/evidence/%s.json" % i,
            "replay_cmd_template": "python3 check.py --replay {path}",
            "engine": "kani-cbmc",
            "level_claimed": {"category": "model_checking", "text": text, "design_ref": ref},
            "level_note": TB,
            "technique": "bounded symbolic execution of the real code (Kani 0.68 / CBMC 6.11 / CaDiCaL) with reference-model assertions; counterexamples replayed natively",
        })
    else:
        na.append({"property_id": i, "reason": NA.get(i, PENDING)})
m = {
 "version": 1,
 "setup_cmd": "python3 check.py --setup",
 "hooks": {
  "guard": "cfg(kani) (set only by cargo-kani on a shadow copy of /repo/src; /repo carries no hook code)",
  "enable": "check.py copies /repo's working tree to a scratch dir, appends `#[cfg(kani)] mod verif_kani { include!(\"/verif/harness/<module>.rs\"); }` to each module and runs cargo kani there",
  "baseline_off_cmd": "cd /repo && cargo test --workspace --no-fail-fast --offline",
  "source_commits": [],
  "add_only": True,
 },
 "engines": [{"name": "kani-cbmc", "path": "/verif/check.py", "serves_properties": sorted(CLAIMED),
              "kind_free_text": "Kani 0.68 proof harnesses (kani::any inputs, #[kani::unwind] with unwinding assertions) decided by CBMC 6.11 + CaDiCaL on the code rustc compiles from /repo/src"}],
 "checks": checks,
 "not_applicable": na,
 "notes": "See DESIGN.md. Fixes of genuine defects are `fix:` commits in /repo, listed in known_findings.json.",
}
json.dump(m, open(os.path.join(V, "MANIFEST.json"), "w"), indent=1)
print("claimed:", sorted(CLAIMED), "n/a:", [x["property_id"] for x in na])
