#!/usr/bin/env python3
"""Generates /verif/MANIFEST.json from the table below (kept in one place so that the
manifest always validates).  Run after changing which properties are claimed."""
import json, os
V = os.path.dirname(os.path.abspath(__file__))
TB = ("Trusted: Kani 0.68 MIR->GOTO translation, CBMC 6.11 + CaDiCaL, Kani's models of Vec/Box, the cfg(kani) model of the "
      "`reusable!` thread-local buffers (leaked global RefCell), dev-profile semantics, the hand-written reference models in "
      "/verif/harness. Every harness bound is listed in the evidence file; behaviour outside the bounds is outside the claim.")
CLAIMED = {
 "C11": ("One-step lemmas from an arbitrary valid sink state (0..=2 elements, every bit offset, arbitrary content satisfying the "
         "representation invariant) for every operation x operand width on MemSink<u8> and MemSink<u64>, each compared with an "
         "independent 128-bit-window model by CBMC over all values; byte export; constructors; default trait methods on a minimal user "
         "sink. By induction over the invariant this covers every finite sequence of sink operations; the induction step itself is an "
         "argument in DESIGN.md, the solver decides each step.", "DESIGN.md section 5 (C11), 4.2"),
}
NA = {
 "C05": "quantifies over thread interleavings of feeder/workers/hashing thread; Kani/CBMC do not model std::thread or crossbeam channels and no sequential projection of par.rs decides byte equality (DESIGN.md section 6)",
 "C06": "termination / failure propagation / thread leaks under faults are properties of blocking channel operations and joins across threads, which the solver-based tool chain here cannot encode (DESIGN.md section 6)",
 "C19": "subject is serde-derive output plus the toml 0.5 parser/printer: string/fmt/heap machinery with input-length loops, beyond what CBMC finishes; nothing arithmetic remains once stubbed (DESIGN.md section 6)",
 "C20": "a relation between different compilations (feature sets) of the crate; one solver run sees one compilation (DESIGN.md section 6)",
}
PENDING = "check not built yet in this round (planned, see DESIGN.md section 5); not claimed until its harnesses run clean"
ids = [json.loads(l)["id"] for l in open(os.path.join(V, "properties.jsonl"))]
checks, na = [], []
for i in ids:
    if i in CLAIMED:
        text, ref = CLAIMED[i]
        checks.append({
            "property_id": i,
            "quick_cmd": "python3 check.py %s --tier quick" % i,
            "thorough_cmd": "python3 check.py %s --tier thorough" % i,
            "evidence_file": "/verif/evidence/%s.json" % i,
            "replay_cmd_template": "python3 check.py --replay {path}",
            "engine": "kani-cbmc",
            "level_claimed": {"category": "model_checking", "text": text, "design_ref": ref},
            "level_note": TB,
            "technique": "bounded symbolic execution of the real code (Kani 0.68 / CBMC 6.11 / CaDiCaL) with reference-model assertions; counterexamples replayed natively",
        })
    else:
        na.append({"property_id": i, "reason": NA.get(i, PENDING)})
m = {
 "version": 1,
 "setup_cmd": "python3 check.py --setup",
 "hooks": {
  "guard": "cfg(kani) (set only by cargo-kani on a shadow copy of /repo/src; /repo carries no hook code)",
  "enable": "check.py copies /repo's working tree to a scratch dir, appends `#[cfg(kani)] mod verif_kani { include!(\"/verif/harness/<module>.rs\"); }` to each module and runs cargo kani there",
  "baseline_off_cmd": "cd /repo && cargo test --workspace --no-fail-fast --offline",
  "source_commits": [],
  "add_only": True,
 },
 "engines": [{"name": "kani-cbmc", "path": "/verif/check.py", "serves_properties": sorted(CLAIMED),
              "kind_free_text": "Kani 0.68 proof harnesses (kani::any inputs, #[kani::unwind] with unwinding assertions) decided by CBMC 6.11 + CaDiCaL on the code rustc compiles from /repo/src"}],
 "checks": checks,
 "not_applicable": na,
 "notes": "See DESIGN.md. Fixes of genuine defects are `fix:` commits in /repo, listed in known_findings.json.",
}
json.dump(m, open(os.path.join(V, "MANIFEST.json"), "w"), indent=1)
print("claimed:", sorted(CLAIMED), "n/a:", [x["property_id"] for x in na])
