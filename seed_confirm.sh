#!/bin/bash
# Confirms a seeded change produced in a scratch worktree /tmp/seed/<ID> (change applied in the
# worktree, results in /tmp/seed/<ID>-out): existing suite passes with the change, the
# demonstration fails with it and passes without it.  Then stores it under /verif/seeded/<ID>/.
id=$1; feat=${2:-}; wt=/tmp/seed/$id; out=/tmp/seed/$id-out
set -u
cd $wt || exit 2
lc=$(echo $id | tr A-Z a-z)
rm -rf tests; git checkout -q -- . ; git apply $out/patch.diff || { echo "patch does not apply"; exit 2; }
echo "== suite with change"; cargo test --workspace --offline $feat 2>&1 | grep -E "^test result" 
mkdir -p tests; cp $out/demo.rs tests/demo_$lc.rs
echo "== demo with change (must fail)"; cargo test --offline $feat --test demo_$lc 2>&1 | grep -E "^test result|panicked" | head -5
git apply -R $out/patch.diff   # (not `git stash`: the stash is shared by all worktrees of /repo)
echo "== demo without change (must pass)"; cargo test --offline $feat --test demo_$lc 2>&1 | grep -E "^test result" | head -3
git apply $out/patch.diff
rm -rf tests
mkdir -p /verif/seeded/$id; cp $out/patch.diff $out/demo.rs /verif/seeded/$id/; cp $out/meta.json /verif/seeded/$id/meta.agent.json
