#!/bin/bash
# Development helper: run the given properties one after another, one log each.
tier=${VERIF_TIER:-quick}
mkdir -p /tmp/exp/runall
for p in "$@"; do
  python3 /verif/check.py $p --tier $tier > /tmp/exp/runall/$p.log 2>&1
  echo "$p exit=$? $(tail -1 /tmp/exp/runall/$p.log)"
done
