#!/bin/bash
# Development helper: like run_all.sh but skips a property when its log already exists (two streams).
tier=${VERIF_TIER:-quick}
mkdir -p /tmp/exp/runall
for p in "$@"; do
  if [ -e /tmp/exp/runall/$p.log ]; then continue; fi
  python3 /verif/check.py $p --tier $tier > /tmp/exp/runall/$p.log 2>&1
  echo "$p exit=$? $(tail -1 /tmp/exp/runall/$p.log)"
done
