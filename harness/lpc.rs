//@file-needs: component.rs, component/datatype.rs
// Harnesses for the integer part of the LPC path (C01, under the assumption of DESIGN.md 4.4)
// and for the window cache key (C10).  Child module of `flacenc::lpc`.

use super::*;
use crate::component::QuantizedParameters;

/// RFC 9639 LPC prediction in 64-bit arithmetic.
fn ref_predict(coefs: &[i16], shift: i8, signal: &[i32], t: usize) -> i64 {
    let mut acc: i64 = 0;
    let mut j = 0;
    while j < coefs.len() {
        acc += coefs[j] as i64 * signal[t - 1 - j] as i64;
        j += 1;
    }
    acc >> shift
}

/// coefficient family: 0 or +-2^j (full magnitude range, products become shifts)
fn pow2_coef(precision: usize) -> i16 {
    let j: u8 = kani::any();
    let neg: bool = kani::any();
    let zero: bool = kani::any();
    kani::assume((j as usize) + 1 < precision || (neg && (j as usize) + 1 == precision));
    if zero { 0 } else if neg { (-(1i32 << j)) as i16 } else { (1i32 << j) as i16 }
}

fn compute_error_case<const N: usize, const K: usize>(small_coefs: bool) -> bool {
    let precision: usize = kani::any();
    kani::assume(precision >= 1 && precision <= 15);
    let shift: i8 = kani::any();
    kani::assume(shift >= 0 && shift <= 15);
    let mut coefs = [0i16; K];
    let mut j = 0;
    while j < K {
        coefs[j] = if small_coefs {
            let c: i8 = kani::any();
            kani::assume(c > -8 && c < 8 && precision >= 4);
            c as i16
        } else {
            pow2_coef(precision)
        };
        j += 1;
    }
    let qps = QuantizedParameters::from_parts(&coefs, K, shift, precision);
    let mut signal = [0i32; N];
    let mut i = 0;
    while i < N {
        let v: i32 = kani::any();
        kani::assume(v >= -(1 << 24) && v < (1 << 24));
        signal[i] = v;
        i += 1;
    }
    // arbitrary previous buffer content
    let mut errors: [i32; N] = kani::any();
    // assumption 4.4: the true residual of every sample fits in i32
    let mut t = K;
    while t < N {
        let e = signal[t] as i64 - ref_predict(&coefs, shift, &signal, t);
        kani::assume(e > i32::MIN as i64 && e <= i32::MAX as i64);
        t += 1;
    }
    compute_error(&qps, &signal, &mut errors);
    let t: usize = kani::any();
    kani::assume(t < N);
    if t < K {
        assert!(errors[t] == 0);
    } else {
        let e = signal[t] as i64 - ref_predict(&coefs, shift, &signal, t);
        assert!(errors[t] as i64 == e);
        // the RFC decoder restores the sample from prediction + residual
        assert!(ref_predict(&coefs, shift, &signal, t) + errors[t] as i64 == signal[t] as i64);
    }
    let big = (coefs[0] as i32).abs() >= (1 << 13);
    std::mem::forget(qps);
    t >= K && big
}

//@ prop: C01
//@ also: C10
//@ drives: lpc::compute_error, lpc::compute_error_impl::<i32,64> and ::<i64,64> (the overflow fallback), arrayutils::unaligned_map_and_update, arrayutils::find_max_abs
//@ bound: order 1 and 2 on 5 samples; every 25-bit sample; precision 1..=15, shift 0..=15; coefficients 0 or +-2^j over the whole magnitude range of the precision (keeps the i32/i64 path boundary reachable while products stay shifts); error buffer with arbitrary previous content
//@ assumes: the true LPC residual of every sample fits in i32 (DESIGN.md 4.4: whether the float analysis can produce coefficients violating this is outside the claim)
//@ asserts: errors[t] = signal[t] - (sum coef_j*signal[t-1-j] >> shift) computed in 64 bits for every t >= order (so the RFC decoder restores the signal), zero in the warm-up region, no overflow panic, independent of the buffer's previous content
#[kani::proof]
#[kani::unwind(70)]
fn c01_qlpc_residual_pow2_coefs() {
    let c = if kani::any() { compute_error_case::<5, 1>(false) } else { compute_error_case::<5, 2>(false) };
    kani::cover!(c);
}

//@ prop: C01
//@ tier: thorough
//@ drives: lpc::compute_error (both integer paths)
//@ bound: order 2 on 5 samples, free coefficients with |c| < 8, every 25-bit sample, precision 4..=15, shift 0..=15
//@ assumes: the true LPC residual of every sample fits in i32 (DESIGN.md 4.4)
//@ asserts: as c01_qlpc_residual_pow2_coefs
#[kani::proof]
#[kani::unwind(70)]
fn c01_qlpc_residual_small_coefs() {
    let c = compute_error_case::<5, 2>(true);
    kani::cover!(true);
    let _ = c;
}

//@ prop: C10
//@ drives: lpc::fingerprint_window, lpc::WindowKey::new (the key of the per-thread window cache)
//@ bound: every pair of accepted Tukey parameters (alpha in [0,1], not NaN) and every window size
//@ asserts: two window configurations with the same cache key are the same configuration (otherwise the second one encodes with the first one's cached window: the result would depend on what the thread encoded before)
//@ oracle: c10_oracle_window_cache_history
#[kani::proof]
fn c10_window_cache_key_is_injective() {
    let a: f32 = kani::any();
    let b: f32 = kani::any();
    kani::assume(a >= 0.0 && a <= 1.0 && b >= 0.0 && b <= 1.0);
    let size: usize = kani::any();
    let ka = WindowKey::new(size, &Window::Tukey { alpha: a });
    let kb = WindowKey::new(size, &Window::Tukey { alpha: b });
    let kr = WindowKey::new(size, &Window::Rectangle);
    assert!(ka != kr);
    if ka == kb {
        assert!(a == b);
    }
    kani::cover!(ka == kb);
    kani::cover!(ka != kb);
}
