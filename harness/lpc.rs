//@file-needs: component.rs, component/datatype.rs
// Harnesses for the integer part of the LPC path (C01, under the assumption of DESIGN.md 4.4)
// and for the window cache key (C10).  Child module of `flacenc::lpc`.

use super::*;
use crate::component::QuantizedParameters;

/// RFC 9639 LPC prediction in 64-bit arithmetic.
fn ref_predict(coefs: &[i16], shift: i8, signal: &[i32], t: usize) -> i64 {
    let mut acc: i64 = 0;
    let mut j = 0;
    while j < coefs.len() {
        acc += coefs[j] as i64 * signal[t - 1 - j] as i64;
        j += 1;
    }
    acc >> shift
}

fn compute_error_case<const N: usize, const K: usize>(coefs: [i16; K]) -> bool {
    let precision: usize = 15;
    let shift: i8 = kani::any();
    kani::assume(shift >= 0 && shift <= 15);
    let qps = QuantizedParameters::from_parts(&coefs, K, shift, precision);
    let mut signal = [0i32; N];
    let mut i = 0;
    while i < N {
        let v: i32 = kani::any();
        kani::assume(v >= -(1 << 24) && v < (1 << 24));
        signal[i] = v;
        i += 1;
    }
    // arbitrary previous buffer content
    let mut errors: [i32; N] = kani::any();
    // assumption 4.4: the true residual of every sample fits in i32
    let mut t = K;
    while t < N {
        let e = signal[t] as i64 - ref_predict(&coefs, shift, &signal, t);
        kani::assume(e > i32::MIN as i64 && e <= i32::MAX as i64);
        t += 1;
    }
    compute_error(&qps, &signal, &mut errors);
    let mut t = 0;
    let mut neg = false;
    while t < N {
        if t < K {
            assert!(errors[t] == 0);
        } else {
            let e = signal[t] as i64 - ref_predict(&coefs, shift, &signal, t);
            assert!(errors[t] as i64 == e);
            // the RFC decoder restores the sample from prediction + residual
            assert!(ref_predict(&coefs, shift, &signal, t) + errors[t] as i64 == signal[t] as i64);
            if e < 0 { neg = true; }
        }
        t += 1;
    }
    std::mem::forget(qps);
    neg
}

//@ prop: C01
//@ also: C10
//@ drives: lpc::compute_error, lpc::compute_error_impl::<i32,64> and ::<i64,64> (the overflow fallback), arrayutils::unaligned_map_and_update, arrayutils::find_max_abs
//@ bound: 5 samples, every 25-bit sample value, every shift 0..=15, precision 15; concrete coefficient vector (3,-1) [32-bit path] (symbolic x symbolic products stall SAT, so coefficients are concrete per harness); error buffer with arbitrary previous content
//@ assumes: the true LPC residual of every sample fits in i32 (DESIGN.md 4.4: whether the float analysis can produce coefficients violating this is outside the claim)
//@ asserts: errors[t] = signal[t] - (sum coef_j*signal[t-1-j] >> shift) computed in 64 bits for every t >= order (so the RFC decoder restores the signal), zero in the warm-up region, no overflow panic, independent of the buffer's previous content
#[kani::proof]
#[kani::unwind(70)]
fn c01_qlpc_residual_i32_path() {
    let c = compute_error_case::<5, 2>([3, -1]);
    kani::cover!(c);
}

//@ prop: C01
//@ also: C10
//@ drives: lpc::compute_error, lpc::compute_error_impl::<i32,64> and ::<i64,64> (the overflow fallback), arrayutils::unaligned_map_and_update, arrayutils::find_max_abs
//@ bound: 5 samples, every 25-bit sample value, every shift 0..=15, precision 15; concrete coefficient vector (16383,-16384) [extreme 15-bit coefficients: 64-bit fallback path] (symbolic x symbolic products stall SAT, so coefficients are concrete per harness); error buffer with arbitrary previous content
//@ assumes: the true LPC residual of every sample fits in i32 (DESIGN.md 4.4: whether the float analysis can produce coefficients violating this is outside the claim)
//@ asserts: errors[t] = signal[t] - (sum coef_j*signal[t-1-j] >> shift) computed in 64 bits for every t >= order (so the RFC decoder restores the signal), zero in the warm-up region, no overflow panic, independent of the buffer's previous content
#[kani::proof]
#[kani::unwind(70)]
fn c01_qlpc_residual_i64_fallback() {
    let c = compute_error_case::<5, 2>([16383, -16384]);
    kani::cover!(c);
}

//@ prop: C01
//@ also: C10
//@ drives: lpc::compute_error, lpc::compute_error_impl::<i32,64> and ::<i64,64> (the overflow fallback), arrayutils::unaligned_map_and_update, arrayutils::find_max_abs
//@ bound: 5 samples, every 25-bit sample value, every shift 0..=15, precision 15; concrete coefficient vector (1) [order 1] (symbolic x symbolic products stall SAT, so coefficients are concrete per harness); error buffer with arbitrary previous content
//@ assumes: the true LPC residual of every sample fits in i32 (DESIGN.md 4.4: whether the float analysis can produce coefficients violating this is outside the claim)
//@ asserts: errors[t] = signal[t] - (sum coef_j*signal[t-1-j] >> shift) computed in 64 bits for every t >= order (so the RFC decoder restores the signal), zero in the warm-up region, no overflow panic, independent of the buffer's previous content
#[kani::proof]
#[kani::unwind(70)]
fn c01_qlpc_residual_order1_unit() {
    let c = compute_error_case::<5, 1>([1]);
    kani::cover!(c);
}

//@ prop: C01
//@ also: C10
//@ drives: lpc::compute_error, lpc::compute_error_impl::<i32,64> and ::<i64,64> (the overflow fallback), arrayutils::unaligned_map_and_update, arrayutils::find_max_abs
//@ bound: 5 samples, every 25-bit sample value, every shift 0..=15, precision 15; concrete coefficient vector (-16384) [order 1, most negative 15-bit coefficient] (symbolic x symbolic products stall SAT, so coefficients are concrete per harness); error buffer with arbitrary previous content
//@ assumes: the true LPC residual of every sample fits in i32 (DESIGN.md 4.4: whether the float analysis can produce coefficients violating this is outside the claim)
//@ asserts: errors[t] = signal[t] - (sum coef_j*signal[t-1-j] >> shift) computed in 64 bits for every t >= order (so the RFC decoder restores the signal), zero in the warm-up region, no overflow panic, independent of the buffer's previous content
#[kani::proof]
#[kani::unwind(70)]
fn c01_qlpc_residual_order1_min() {
    let c = compute_error_case::<5, 1>([-16384]);
    kani::cover!(c);
}

//@ prop: C10
//@ drives: lpc::fingerprint_window, lpc::WindowKey::new (the key of the per-thread window cache)
//@ bound: every pair of accepted Tukey parameters (alpha in [0,1], not NaN) and every window size
//@ asserts: two window configurations with the same cache key are the same configuration (otherwise the second one encodes with the first one's cached window: the result would depend on what the thread encoded before)
//@ oracle: c10_oracle_window_cache_history
#[kani::proof]
fn c10_window_cache_key_is_injective() {
    let a: f32 = kani::any();
    let b: f32 = kani::any();
    kani::assume(a >= 0.0 && a <= 1.0 && b >= 0.0 && b <= 1.0);
    let size: usize = kani::any();
    let ka = WindowKey::new(size, &Window::Tukey { alpha: a });
    let kb = WindowKey::new(size, &Window::Tukey { alpha: b });
    let kr = WindowKey::new(size, &Window::Rectangle);
    assert!(ka != kr);
    if ka == kb {
        assert!(a == b);
    }
    kani::cover!(ka == kb);
    kani::cover!(ka != kb);
}

//@ prop: C02
//@ also: C01
//@ drives: lpc::find_shift::<f64>, lpc::quantize_parameter::<f64>, lpc::quantize_parameters::<f64> (integer post-processing after the float scaling: clamp of the shift, clamp of every coefficient to the precision, trailing-zero trimming), QuantizedParameters::from_parts
//@ bound: 1..=2 arbitrary finite f64 coefficients (also subnormal, huge, zero), every precision 1..=15; the float primitives (log2, ceil, powi, round) are whatever CBMC makes of them - where Kani models them as unconstrained the result is an over-approximation, which is sound for this post-condition
//@ asserts: what the LPC subframe header can carry (RFC 9639 9.2.6): shift in 0..=15 (5-bit field, never negative), precision as requested, predictor order 1..=number of coefficients, every quantised coefficient representable in `precision` bits two's complement
#[kani::proof]
#[kani::unwind(40)]
fn c02_quantized_parameters_fit_the_subframe_header() {
    let precision: usize = kani::any();
    kani::assume(precision >= 1 && precision <= 15);
    let c0: f64 = kani::any();
    let c1: f64 = kani::any();
    kani::assume(c0.is_finite() && c1.is_finite());
    let two: bool = kani::any();
    let arr = [c0, c1];
    let coefs: &[f64] = if two { &arr[..] } else { &arr[..1] };
    let shift = find_shift(coefs, precision);
    assert!(shift >= 0 && shift <= 15);
    let qps = quantize_parameters(coefs, precision);
    assert!(qps.shift() >= 0 && qps.shift() <= 15);
    assert!(qps.precision() == precision);
    assert!(qps.order() >= 1 && qps.order() <= coefs.len());
    let lim = 1i32 << (precision - 1);
    let q = qps.coefs();
    let mut i = 0;
    while i < q.len() {
        assert!((q[i] as i32) >= -lim && (q[i] as i32) < lim);
        i += 1;
    }
    kani::cover!(two && qps.order() == 1);
    kani::cover!(shift == 15);
    kani::cover!(shift == 0);
    std::mem::forget(qps);
}
