// Harnesses for the array helpers behind C01 (constant detection), C10 (reusable SIMD
// vectors).  Child module of `flacenc::arrayutils`.

use super::*;

// ======================================================================== C01: constant detection
fn is_constant_case<const N: usize>() -> bool {
    // a block that is constant except (possibly) at one arbitrary position
    let a: i32 = kani::any();
    let b: i32 = kani::any();
    let j: usize = kani::any();
    kani::assume(j < N);
    let mut s = [a; N];
    s[j] = b;
    let got = is_constant(&s);
    assert!(got == (N == 1 || a == b));
    !got && j + 1 == N
}

//@ prop: C01
//@ also: C09
//@ drives: arrayutils::is_constant::<i32> (the test behind the CONSTANT subframe in coding::encode_subframe)
//@ bound: blocks of 1, 2, 16, 17, 18, 33 and 40 samples (concrete per path: below, at and above one and two 16-sample chunks, so a chunked rewrite has full chunks, a boundary and a remainder inside the bound) that are constant except at ONE arbitrary position holding an arbitrary value; plus (c01_is_constant_small) every block of up to 6 arbitrary samples
//@ asserts: true iff every sample equals the first one - a CONSTANT subframe stores one value, so `true` for a block with a differing sample anywhere (in particular in a trailing partial chunk, or right after a chunk boundary) is a lossy encoding
#[kani::proof]
#[kani::unwind(42)]
fn c01_is_constant_exact() {
    let sel: u8 = kani::any();
    let c = match sel {
        0 => is_constant_case::<1>(),
        1 => is_constant_case::<2>(),
        2 => is_constant_case::<16>(),
        3 => is_constant_case::<17>(),
        4 => is_constant_case::<18>(),
        5 => is_constant_case::<33>(),
        _ => is_constant_case::<40>(),
    };
    kani::cover!(c && sel == 5);
}

//@ prop: C01
//@ also: C09
//@ drives: arrayutils::is_constant::<i32>
//@ bound: every slice of 0..=6 arbitrary i32 samples (symbolic length)
//@ asserts: true iff all samples are equal
#[kani::proof]
#[kani::unwind(8)]
fn c01_is_constant_small() {
    let a: [i32; 6] = kani::any();
    let n: usize = kani::any();
    kani::assume(n <= 6);
    let got = is_constant(&a[..n]);
    let mut all_equal = true;
    let mut t = 1;
    while t < n {
        if a[t] != a[0] {
            all_equal = false;
        }
        t += 1;
    }
    assert!(got == all_equal);
    kani::cover!(n == 6 && got);
    kani::cover!(n == 5 && !got);
}

// ======================================================================== C10: reusable SIMD vectors
fn simdvec_reset_iter_case<const M: usize, const N: usize, const NV: usize>() -> bool {
    // real history: the state a previous block of M samples left behind (arbitrary content)
    let garbage: [i32; M] = kani::any();
    let mut v: SimdVec<i32, 16> = SimdVec::new();
    v.reset_from_slice(&garbage);

    let src: [[i32; 16]; NV] = kani::any();
    v.reset_from_iter_simd(N, src.iter().map(|a| simd::Simd::from_array(*a)));

    assert!(v.len() == N);
    assert!(v.simd_len() == NV);
    let s = v.as_ref();
    assert!(s.len() == N);
    let t: usize = kani::any();
    kani::assume(t < N);
    assert!(s[t] == src[t / 16][t % 16]);
    let r = t + 1 == N && s[t] != 0;
    std::mem::forget(v);
    r
}

//@ prop: C10
//@ also: C01
//@ drives: SimdVec::<i32,16>::reset_from_iter_simd, SimdVec::reset_from_slice, SimdVec::as_ref, SimdVec::len, SimdVec::simd_len (the helper that refills the per-thread windowed-signal buffer of the LPC estimator, lpc.rs fill_windowed_signal)
//@ bound: previous block of 5, 20, 7 or 17 samples (arbitrary content) followed by a refill of 12, 7, 20 or 30 samples (concrete per path; arbitrary content; symbolic element index): same vector count with a longer scalar length, shrinking, growing, and two vectors to two vectors; instantiation i32 x 16 (the code is generic and does not look at the element type)
//@ asserts: afterwards the scalar view has exactly the new length and the new contents - nothing of the previous block's length or data survives
#[kani::proof]
#[kani::unwind(34)]
fn c10_simdvec_reset_from_iter_forgets_previous_length() {
    let sel: u8 = kani::any();
    let c = match sel {
        0 => simdvec_reset_iter_case::<5, 12, 1>(),
        1 => simdvec_reset_iter_case::<20, 7, 1>(),
        2 => simdvec_reset_iter_case::<7, 20, 2>(),
        _ => simdvec_reset_iter_case::<17, 30, 2>(),
    };
    kani::cover!(c);
}

fn simdvec_reset_slice_case<const M: usize, const N: usize>() -> bool {
    let garbage: [i32; M] = kani::any();
    let mut v: SimdVec<i32, 16> = SimdVec::new();
    v.reset_from_slice(&garbage);
    let src: [i32; N] = kani::any();
    v.reset_from_slice(&src);
    assert!(v.len() == N);
    assert!(v.simd_len() == (N + 15) / 16);
    let s = v.as_ref();
    assert!(s.len() == N);
    let t: usize = kani::any();
    kani::assume(t < 16 * ((N + 15) / 16));
    let vs = v.as_ref_simd();
    let lane = vs[t / 16][t % 16];
    if t < N {
        assert!(s[t] == src[t]);
        assert!(lane == src[t]);
    } else {
        // the lanes behind the scalar length are zero: the SIMD kernels (fixed-predictor
        // differencing, windowing) read whole vectors
        assert!(lane == 0);
    }
    let r = t >= N;
    std::mem::forget(v);
    r
}

//@ prop: C10
//@ also: C01
//@ drives: SimdVec::<i32,16>::reset_from_slice, arrayutils::pack_into_simd_vec, transmute_and_flatten_simd(_mut), SimdVec::as_ref / as_ref_simd
//@ bound: previous block of 20 or 12 samples (arbitrary content) followed by a refill of 5 or 17 samples (shrinking within two vectors -> one, growing one -> two); symbolic element index over all lanes of the new vectors
//@ asserts: scalar view = the new slice; vector count = ceil(n/16); the padding lanes behind the scalar length are ZERO whatever the buffer held before (whole vectors are read by the SIMD kernels, so stale lanes would leak an earlier block into the residuals)
#[kani::proof]
#[kani::unwind(34)]
fn c10_simdvec_reset_from_slice_zero_pads() {
    let c = if kani::any() { simdvec_reset_slice_case::<20, 5>() } else { simdvec_reset_slice_case::<12, 17>() };
    kani::cover!(c);
}

// ======================================================================== C03 / C14: int -> packed bytes (what the multi-thread context hashes)
fn i32s_to_le_case<const BPS: usize>() -> bool {
    const MAXN: usize = 5;
    let ints: [i32; MAXN] = kani::any();
    let n: usize = kani::any();
    kani::assume(n <= MAXN);
    // the destination is the reused `bytebuf` of the multi-thread context: arbitrary stale bytes
    let stale: [u8; 20] = kani::any();
    let mut dest = stale;
    i32s_to_le_bytes(&ints[..n], &mut dest[..n * BPS], BPS);
    let k: usize = kani::any();
    kani::assume(k < 20);
    if k < n * BPS {
        let want = ((ints[k / BPS] as u32) >> (8 * (k % BPS))) as u8;
        assert!(dest[k] == want);
    } else {
        assert!(dest[k] == stale[k]);
    }
    n == 5 && k / BPS == 4 && dest[k] != stale[k]
}

//@ prop: C03
//@ also: C14
//@ drives: arrayutils::i32s_to_le_bytes (the conversion `ParContext::fill_interleaved` applies before the hashing thread sees a block of integer samples)
//@ bound: 0..=5 samples (symbolic count: empty, odd and even counts), bytes per sample 1, 2, 3 and 4 (concrete per path), every i32 sample value, destination pre-filled with arbitrary stale bytes (the buffer is reused between blocks), symbolic byte index
//@ asserts: byte k of the destination is byte (k mod bps) of the little-endian two's-complement form of sample k div bps, for EVERY sample including the last one of an odd-sized block; nothing behind n*bps is touched - i.e. the multi-thread MD5 input equals the single-thread one (C03's "whether one or many threads were used")
#[kani::proof]
#[kani::unwind(22)]
fn c03_i32s_to_le_bytes_exact() {
    let sel: u8 = kani::any();
    let c = match sel {
        1 => i32s_to_le_case::<1>(),
        2 => i32s_to_le_case::<2>(),
        3 => i32s_to_le_case::<3>(),
        _ => i32s_to_le_case::<4>(),
    };
    kani::cover!(c && sel == 2);
}

//@ prop: C03
//@ expect: fail
//@ drives: (reachability witness) i32s_to_le_case::<2>
//@ bound: as c03_i32s_to_le_bytes_exact
#[kani::proof]
#[kani::unwind(22)]
fn c03_vacuity_twin_le_bytes() {
    let _c = i32s_to_le_case::<2>();
    assert!(false);
}
