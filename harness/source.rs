// Harnesses for C14 (integer vs. packed-byte delivery), C03 (MD5/sample-count context),
// C17 (fill argument validation), C10 (frame buffer reuse).  Child module of `flacenc::source`.

use super::*;

pub(crate) fn fmt_stub(_args: std::fmt::Arguments<'_>) -> String {
    String::new()
}

/// Reference: sign-extended little-endian sample of `bps` bytes starting at bytes[off].
fn ref_sample(bytes: &[u8], off: usize, bps: usize) -> i32 {
    let mut v: u32 = 0;
    let mut i = 0;
    while i < 4 {
        if i < bps {
            v |= (bytes[off + i] as u32) << (8 * i);
        }
        i += 1;
    }
    let shift = 32 - 8 * bps as u32;
    ((v << shift) as i32) >> shift
}

pub(crate) fn new_framebuf(channels: usize, size: usize) -> FrameBuf {
    // same state `FrameBuf::with_size` builds (checked by c14_with_size_state)
    FrameBuf { samples: vec![0i32; size * channels], size, filled_size: 0, readbuf: Vec::with_capacity(64) }
}

// ---------------------------------------------------------------- byte -> int conversion
macro_rules! le_bytes_harness {
    ($name:ident, $bps:expr) => {
        #[kani::proof]
        #[kani::unwind(8)]
        fn $name() {
            const N: usize = 3;
            let bytes: [u8; N * $bps] = kani::any();
            let mut dest = [0x5A5A5A5Ai32; N + 1];
            crate::arrayutils::le_bytes_to_i32s(&bytes, &mut dest, $bps);
            let mut t = 0;
            while t < N {
                assert!(dest[t] == ref_sample(&bytes, t * $bps, $bps));
                t += 1;
            }
            assert!(dest[N] == 0x5A5A5A5A);
            kani::cover!(dest[1] < 0 && dest[2] > 0);
        }
    };
}
//@ prop: C14
//@ drives: arrayutils::le_bytes_to_i32s, le_bytes_to_i32s_impl::<1>
//@ bound: 3 samples of 1 byte, every byte value (the loop body is uniform in the sample index)
//@ asserts: each output equals the sign-extended little-endian reference; nothing beyond is written
le_bytes_harness!(c14_le_bytes_1, 1);
//@ prop: C14
//@ drives: arrayutils::le_bytes_to_i32s, le_bytes_to_i32s_impl::<2>
//@ bound: 3 samples of 2 bytes, every byte value
//@ asserts: as c14_le_bytes_1
le_bytes_harness!(c14_le_bytes_2, 2);
//@ prop: C14
//@ drives: arrayutils::le_bytes_to_i32s, le_bytes_to_i32s_impl::<3>
//@ bound: 3 samples of 3 bytes, every byte value
//@ asserts: as c14_le_bytes_1
le_bytes_harness!(c14_le_bytes_3, 3);
//@ prop: C14
//@ drives: arrayutils::le_bytes_to_i32s, le_bytes_to_i32s_impl::<4>
//@ bound: 3 samples of 4 bytes, every byte value
//@ asserts: as c14_le_bytes_1
le_bytes_harness!(c14_le_bytes_4, 4);

// ---------------------------------------------------------------- FrameBuf: byte fill == int fill
/// Fills two identical buffers, one through bytes and one through reference integers, and
/// compares the observable state.  CH channels, K inter-channel samples, BPS bytes per sample.
fn fill_equiv<const CH: usize, const K: usize, const BPS: usize, const NB: usize, const NI: usize>() -> bool {
    // NB = CH*K*BPS bytes, NI = CH*K ints (const generics cannot be multiplied on stable)
    let bytes: [u8; NB] = kani::any();
    let mut ints = [0i32; NI];
    let mut i = 0;
    while i < NI {
        ints[i] = ref_sample(&bytes, i * BPS, BPS);
        i += 1;
    }
    let mut a = new_framebuf(CH, 32);
    let mut b = new_framebuf(CH, 32);
    // arbitrary previous content (a previous, longer block): both buffers hold the same garbage
    let garbage: i32 = kani::any();
    let gpos: usize = kani::any();
    kani::assume(gpos < 32 * CH);
    a.samples[gpos] = garbage;
    b.samples[gpos] = garbage;
    let prev_filled: usize = kani::any();
    kani::assume(prev_filled <= 32);
    a.filled_size = prev_filled;
    b.filled_size = prev_filled;

    let ra = a.fill_le_bytes(&bytes, BPS);
    let rb = b.fill_interleaved(&ints);
    let oka = ra.is_ok();
    let okb = rb.is_ok();
    std::mem::forget(ra);
    std::mem::forget(rb);
    assert!(oka && okb);
    assert!(a.filled_size() == K && b.filled_size() == K);
    let mut ch = 0;
    while ch < CH {
        let sa = a.channel_slice(ch);
        let sb = b.channel_slice(ch);
        assert!(sa.len() == K && sb.len() == K);
        let mut t = 0;
        while t < K {
            assert!(sa[t] == sb[t]);
            assert!(sb[t] == ints[t * CH + ch]);
            t += 1;
        }
        // (cells beyond the fill level are not observable through channel_slice; the mono
        // path leaves them untouched, so nothing is asserted about them)
        ch += 1;
    }
    let c = K == 0 || ints[NI - 1] < 0;
    std::mem::forget(a);
    std::mem::forget(b);
    c
}

macro_rules! fill_equiv_harness {
    ($name:ident, $ch:expr, $bps:expr) => {
        #[kani::proof]
        #[kani::unwind(36)]
        #[kani::stub(alloc::fmt::format, fmt_stub)]
        fn $name() {
            let k: u8 = kani::any();
            let c = if k == 0 {
                fill_equiv::<$ch, 0, $bps, 0, 0>()
            } else if k == 1 {
                fill_equiv::<$ch, 1, $bps, { $ch * $bps }, { $ch }>()
            } else if k == 2 {
                fill_equiv::<$ch, 2, $bps, { $ch * 2 * $bps }, { $ch * 2 }>()
            } else {
                fill_equiv::<$ch, 3, $bps, { $ch * 3 * $bps }, { $ch * 3 }>()
            };
            kani::cover!(c);
        }
    };
}
//@ prop: C14
//@ also: C10
//@ drives: FrameBuf::fill_le_bytes, FrameBuf::fill_interleaved, arrayutils::deinterleave (deinterleave_ch1), le_bytes_to_i32s, FrameBuf::channel_slice
//@ bound: 1 channel, 2 bytes/sample, 32-sample buffer holding arbitrary previous content (one arbitrary cell, arbitrary previous fill level), fill length 0..=3 inter-channel samples, every byte value
//@ asserts: byte fill and integer fill of the sign-extended reference leave identical channel slices and fill level; the slices equal the reference de-interleaving and have exactly the new fill length (nothing of the previous block is visible)
//@ stubs: alloc::fmt::format -> empty string
fill_equiv_harness!(c14_fill_equiv_ch1_b2, 1, 2);
/// A longer byte fill followed by a shorter one on the SAME buffer (the final short block of a
/// byte-fed stream), compared with a fresh buffer filled once with the reference integers.
fn refill_case<const CH: usize, const BPS: usize, const NB1: usize, const NB2: usize, const NI2: usize>() -> bool {
    let first: [u8; NB1] = kani::any();
    let second: [u8; NB2] = kani::any();
    let mut ints = [0i32; NI2];
    let mut i = 0;
    while i < NI2 {
        ints[i] = ref_sample(&second, i * BPS, BPS);
        i += 1;
    }
    let k2 = NI2 / CH;
    let mut a = new_framebuf(CH, 32);
    let r = a.fill_le_bytes(&first, BPS);
    let ok = r.is_ok();
    std::mem::forget(r);
    assert!(ok && a.filled_size() == NB1 / BPS / CH);
    let r = a.fill_le_bytes(&second, BPS);
    let ok = r.is_ok();
    std::mem::forget(r);
    assert!(ok);
    let mut b = new_framebuf(CH, 32);
    let r = b.fill_interleaved(&ints);
    let ok = r.is_ok();
    std::mem::forget(r);
    assert!(ok);
    assert!(a.filled_size() == k2 && b.filled_size() == k2);
    let mut ch = 0;
    while ch < CH {
        let (sa, sb) = (a.channel_slice(ch), b.channel_slice(ch));
        assert!(sa.len() == k2 && sb.len() == k2);
        let mut t = 0;
        while t < k2 {
            assert!(sa[t] == sb[t] && sb[t] == ints[t * CH + ch]);
            t += 1;
        }
        ch += 1;
    }
    let c = ints[NI2 - 1] < 0;
    std::mem::forget(a);
    std::mem::forget(b);
    c
}

//@ prop: C14
//@ also: C10
//@ drives: FrameBuf::fill_le_bytes twice on one buffer (the conversion scratch `readbuf` is reused), FrameBuf::fill_interleaved, deinterleave_ch2 / deinterleave_ch1, le_bytes_to_i32s
//@ bound: histories of two byte fills on one 32-sample buffer: 3 then 1 inter-channel samples (stereo, 2 bytes per sample) and 4 then 2 samples (mono, 3 bytes per sample); every byte value
//@ asserts: after the second (shorter) fill the buffer shows exactly the second block: fill level and per-channel samples equal those of a fresh buffer filled with the sign-extended reference integers (nothing of the longer first block survives)
//@ stubs: alloc::fmt::format -> empty string
#[kani::proof]
#[kani::unwind(36)]
#[kani::stub(alloc::fmt::format, fmt_stub)]
fn c14_byte_refill_shorter_block() {
    let c = if kani::any() { refill_case::<2, 2, 12, 4, 2>() } else { refill_case::<1, 3, 12, 6, 2>() };
    kani::cover!(c);
}

//@ prop: C14
//@ also: C10
//@ drives: FrameBuf::fill_le_bytes, FrameBuf::fill_interleaved, deinterleave_ch2, le_bytes_to_i32s_impl::<3>
//@ bound: 2 channels, 3 bytes/sample, 32-sample buffer with arbitrary previous content, fill length 0..=3
//@ asserts: as c14_fill_equiv_ch1_b2
//@ stubs: alloc::fmt::format -> empty string
fill_equiv_harness!(c14_fill_equiv_ch2_b3, 2, 3);
//@ prop: C14
//@ tier: thorough
//@ drives: FrameBuf::fill_le_bytes, FrameBuf::fill_interleaved, deinterleave_ch2, le_bytes_to_i32s_impl::<2>
//@ bound: 2 channels, 2 bytes/sample, fill length 0..=3
//@ asserts: as c14_fill_equiv_ch1_b2
fill_equiv_harness!(c14_fill_equiv_ch2_b2, 2, 2);
//@ prop: C14
//@ drives: FrameBuf::fill_le_bytes, FrameBuf::fill_interleaved, deinterleave_ch3, le_bytes_to_i32s_impl::<1>
//@ bound: 3 channels, 1 byte/sample, fill length 0..=3
//@ asserts: as c14_fill_equiv_ch1_b2
fill_equiv_harness!(c14_fill_equiv_ch3_b1, 3, 1);
//@ prop: C14
//@ tier: thorough
//@ drives: FrameBuf::fill_le_bytes, FrameBuf::fill_interleaved, deinterleave_ch4, le_bytes_to_i32s_impl::<4>
//@ bound: 4 channels, 4 bytes/sample, fill length 0..=3
//@ asserts: as c14_fill_equiv_ch1_b2
fill_equiv_harness!(c14_fill_equiv_ch4_b4, 4, 4);
//@ prop: C14
//@ tier: thorough
//@ drives: FrameBuf::fill_le_bytes, FrameBuf::fill_interleaved, deinterleave_ch5
//@ bound: 5 channels, 2 bytes/sample, fill length 0..=3
//@ asserts: as c14_fill_equiv_ch1_b2
fill_equiv_harness!(c14_fill_equiv_ch5_b2, 5, 2);
//@ prop: C14
//@ tier: thorough
//@ drives: FrameBuf::fill_le_bytes, FrameBuf::fill_interleaved, deinterleave_ch6
//@ bound: 6 channels, 3 bytes/sample, fill length 0..=3
//@ asserts: as c14_fill_equiv_ch1_b2
fill_equiv_harness!(c14_fill_equiv_ch6_b3, 6, 3);
//@ prop: C14
//@ tier: thorough
//@ drives: FrameBuf::fill_le_bytes, FrameBuf::fill_interleaved, deinterleave_ch7
//@ bound: 7 channels, 1 byte/sample, fill length 0..=3
//@ asserts: as c14_fill_equiv_ch1_b2
fill_equiv_harness!(c14_fill_equiv_ch7_b1, 7, 1);
//@ prop: C14
//@ tier: thorough
//@ drives: FrameBuf::fill_le_bytes, FrameBuf::fill_interleaved, deinterleave_ch8
//@ bound: 8 channels, 2 bytes/sample, fill length 0..=3
//@ asserts: as c14_fill_equiv_ch1_b2
fill_equiv_harness!(c14_fill_equiv_ch8_b2, 8, 2);

//@ prop: C14
//@ drives: FrameBuf::with_size
//@ bound: channels 1..=8 x block size 32/33 (concrete pairs chosen symbolically)
//@ asserts: the constructor yields exactly the state the fill harnesses start from (all-zero samples, size, fill level 0)
//@ stubs: alloc::fmt::format -> empty string
#[kani::proof]
#[kani::unwind(300)]
#[kani::stub(alloc::fmt::format, fmt_stub)]
fn c14_with_size_state() {
    let sel: u8 = kani::any();
    let (ch, size) = match sel {
        0 => (1usize, 32usize),
        1 => (2, 33),
        2 => (8, 32),
        _ => (3, 32),
    };
    match FrameBuf::with_size(ch, size) {
        Ok(fb) => {
            assert!(fb.size() == size && fb.filled_size() == 0 && fb.channels() == ch);
            assert!(fb.samples.len() == ch * size);
            let i: usize = kani::any();
            kani::assume(i < ch * size);
            assert!(fb.samples[i] == 0);
            kani::cover!(ch == 8);
            std::mem::forget(fb);
        }
        Err(e) => {
            std::mem::forget(e);
            assert!(false);
        }
    }
}

//@ prop: C14
//@ expect: fail
//@ drives: (reachability witness) fill_equiv::<2,2,3>
//@ bound: as c14_fill_equiv_ch2_b3 with 2 samples
#[kani::proof]
#[kani::unwind(36)]
fn c14_vacuity_twin() {
    let _ = fill_equiv::<2, 2, 3, 12, 4>();
    assert!(false);
}

// ======================================================================== C17: fill argument validation
//@ prop: C17
//@ drives: FrameBuf::verify_samples (the sample-range check behind encode_fixed_size_frame and the stream encoder), FrameBuf::channel_slice, arrayutils::find_min_and_max::<64>
//@ bound: a PARTIALLY filled buffer: 2 and 3 channels, capacity 32, fill level 2; every i32 value at one symbolic position per channel of the loaded region and at one position beyond the fill level; declared width 8/16/24
//@ asserts: Ok if and only if every LOADED sample of EVERY channel lies inside the declared width (a violation in a channel other than the first, or in a short final block, must be reported; stale cells beyond the fill level must not matter)
//@ stubs: alloc::fmt::format -> empty string
#[kani::proof]
#[kani::unwind(70)]
#[kani::stub(alloc::fmt::format, fmt_stub)]
fn c17_verify_samples_partial_fill() {
    let three: bool = kani::any();
    let bits: usize = if kani::any() { 16 } else if kani::any() { 8 } else { 24 };
    let lo = -(1i64 << (bits - 1));
    let hi = (1i64 << (bits - 1)) - 1;
    let x: [i32; 3] = kani::any();
    let pos: [usize; 3] = kani::any();
    let stale: i32 = kani::any();
    let ok_expected;
    let ok;
    if three {
        let mut fb = new_framebuf(3, 32);
        let mut data = [0i32; 6];
        let mut c = 0;
        let mut all = true;
        while c < 3 {
            kani::assume(pos[c] < 2);
            data[pos[c] * 3 + c] = x[c];
            all = all && (x[c] as i64) >= lo && (x[c] as i64) <= hi;
            c += 1;
        }
        let r = fb.fill_interleaved(&data);
        assert!(r.is_ok());
        std::mem::forget(r);
        fb.samples[32 + 5] = stale; // channel 1, beyond the fill level
        let r = fb.verify_samples(bits);
        ok = r.is_ok();
        std::mem::forget(r);
        ok_expected = all;
        std::mem::forget(fb);
    } else {
        let mut fb = new_framebuf(2, 32);
        let mut data = [0i32; 4];
        let mut c = 0;
        let mut all = true;
        while c < 2 {
            kani::assume(pos[c] < 2);
            data[pos[c] * 2 + c] = x[c];
            all = all && (x[c] as i64) >= lo && (x[c] as i64) <= hi;
            c += 1;
        }
        let r = fb.fill_interleaved(&data);
        assert!(r.is_ok());
        std::mem::forget(r);
        fb.samples[7] = stale; // channel 0, beyond the fill level
        let r = fb.verify_samples(bits);
        ok = r.is_ok();
        std::mem::forget(r);
        ok_expected = all;
        std::mem::forget(fb);
    }
    assert!(ok == ok_expected);
    kani::cover!(!ok && (x[0] as i64) >= lo && (x[0] as i64) <= hi);
    kani::cover!(ok && ((stale as i64) > hi));
}

//@ prop: C17
//@ drives: FrameBuf::fill_interleaved, FrameBuf::channel_slice
//@ bound: 2-channel buffer of 32 samples; slices of every length 0..=70 (so: odd lengths, exactly full, one sample too many, more than twice the capacity); arbitrary sample values
//@ asserts: never panics; Ok iff the length is a whole number of inter-channel samples that fits; after Ok the fill level is len/2 and every channel slice is readable; after Err the buffer is still usable
//@ stubs: alloc::fmt::format -> empty string
#[kani::proof]
#[kani::unwind(36)]
#[kani::stub(alloc::fmt::format, fmt_stub)]
fn c17_framebuf_fill_interleaved_length() {
    let data: [i32; 70] = kani::any();
    let n: usize = kani::any();
    kani::assume(n <= 70);
    let mut fb = new_framebuf(2, 32);
    let r = fb.fill_interleaved(&data[..n]);
    let ok = r.is_ok();
    std::mem::forget(r);
    assert!(ok == (n % 2 == 0 && n / 2 <= 32));
    if ok {
        assert!(fb.filled_size() == n / 2);
    }
    // whatever happened, reading the channels must not panic
    assert!(fb.filled_size() <= fb.size());
    let s0 = fb.channel_slice(0);
    let s1 = fb.channel_slice(1);
    assert!(s0.len() == fb.filled_size() && s1.len() == fb.filled_size());
    if ok && n >= 2 {
        assert!(s0[0] == data[0] && s1[0] == data[1]);
    }
    kani::cover!(ok && n == 64);
    kani::cover!(!ok && n == 66);
    std::mem::forget(fb);
}

//@ prop: C17
//@ drives: FrameBuf::fill_le_bytes
//@ bound: 2-channel buffer of 32 samples; byte slices of length 0, 5, 8, 12 and 300; bytes-per-sample free over all of usize (0, 5 and 2^32+2 included)
//@ asserts: never panics; Ok iff bytes-per-sample is 1..=4, the byte count is a whole number of inter-channel samples and fits the buffer; after Ok the fill level is len/(2*bps)
//@ stubs: alloc::fmt::format -> empty string
#[kani::proof]
#[kani::unwind(36)]
#[kani::stub(alloc::fmt::format, fmt_stub)]
fn c17_framebuf_fill_le_bytes_arguments() {
    fn case<const NB: usize>() -> bool {
        let bytes: [u8; NB] = [0x5A; NB];
        let bps: usize = kani::any();
        let mut fb = new_framebuf(2, 32);
        let r = fb.fill_le_bytes(&bytes, bps);
        let ok = r.is_ok();
        std::mem::forget(r);
        let want = bps >= 1 && bps <= 4 && NB % (2 * bps) == 0 && NB / (2 * bps) <= 32;
        assert!(ok == want);
        if ok {
            assert!(fb.filled_size() == NB / (2 * bps));
        }
        assert!(fb.filled_size() <= fb.size());
        std::mem::forget(fb);
        ok
    }
    let sel: u8 = kani::any();
    let ok = match sel {
        0 => case::<0>(),
        1 => case::<5>(),
        2 => case::<8>(),
        3 => case::<12>(),
        _ => case::<300>(),
    };
    kani::cover!(ok && sel == 3);
    kani::cover!(!ok && sel == 2);
}

//@ prop: C17
//@ also: C14
//@ drives: Context::fill_le_bytes, Context::fill_interleaved (argument checks only; no digest is compared here)
//@ bound: context for 2 channels at 16 or 24 bits; byte slices of length 0, 6, 8, 12 (zero content) with bytes-per-sample free over usize; integer slices of length 0..=5
//@ asserts: never panics; a byte fill is accepted iff bytes-per-sample equals the declared byte width and the byte count is a whole number of inter-channel samples (empty fills are accepted and ignored); an integer fill iff its length is a multiple of the channel count; counters advance by exactly the accepted samples
#[kani::proof]
#[kani::unwind(70)]
fn c17_context_fill_arguments() {
    fn case<const NB: usize>(bits: usize) -> bool {
        let mut ctx = Context::new(bits, 2);
        let bytes = [0u8; NB];
        let bps: usize = kani::any();
        let r = ctx.fill_le_bytes(&bytes, bps);
        let ok = r.is_ok();
        std::mem::forget(r);
        let want = NB == 0 || (bps == bits / 8 && NB % (2 * bps) == 0);
        assert!(ok == want);
        if ok && NB > 0 {
            assert!(ctx.total_samples() == NB / (2 * bps));
            assert!(ctx.current_frame_number() == Some(0));
        } else {
            assert!(ctx.total_samples() == 0 && ctx.current_frame_number().is_none());
        }
        std::mem::forget(ctx);
        ok && NB > 0
    }
    let sel: u8 = kani::any();
    let c = match sel {
        0 => case::<0>(16),
        1 => case::<6>(24),
        2 => case::<8>(16),
        3 => case::<12>(24),
        4 => case::<12>(16),
        _ => {
            let mut ctx = Context::new(16, 2);
            let ints = [0i32; 5];
            let n: usize = kani::any();
            kani::assume(n <= 5);
            let r = ctx.fill_interleaved(&ints[..n]);
            let ok = r.is_ok();
            std::mem::forget(r);
            assert!(ok == (n % 2 == 0));
            if ok {
                assert!(ctx.total_samples() == n / 2);
            }
            std::mem::forget(ctx);
            false
        }
    };
    kani::cover!(c && sel == 3);
    kani::cover!(c && sel == 2);
}

//@ prop: C17
//@ expect: fail
//@ drives: (reachability witness) FrameBuf::fill_interleaved Ok path
//@ bound: as c17_framebuf_fill_interleaved_length
#[kani::proof]
#[kani::unwind(36)]
fn c17_vacuity_twin() {
    let data: [i32; 8] = kani::any();
    let mut fb = new_framebuf(2, 32);
    let r = fb.fill_interleaved(&data);
    kani::assume(r.is_ok());
    std::mem::forget(r);
    assert!(false);
}

// ======================================================================== C03: what is fed to MD5
// The MD5 implementation (crate md-5) is trusted; the property is about WHICH BYTES reach it.
// The compression function is stubbed by a recorder: the final (padded) block of a message
// shorter than 56 bytes contains the whole message, the 0x80 marker and the bit length, so two
// digests were computed over identical byte streams iff their recorded blocks are identical.
static mut MD5_BLOCKS: [[u8; 64]; 2] = [[0; 64]; 2];
static mut MD5_NBLOCKS: usize = 0;
fn md5_compress_stub(state: &mut [u32; 4], input: &[u8; 64]) {
    unsafe {
        if MD5_NBLOCKS < 2 {
            MD5_BLOCKS[MD5_NBLOCKS] = *input;
        }
        MD5_NBLOCKS += 1;
    }
    state[0] = state[0].wrapping_add(1);
}

fn md5_feed_case<const CH: usize, const BITS: usize, const NS: usize, const NB: usize>() -> bool {
    // NS interleaved samples = NS/CH inter-channel samples; NB = NS * bytes-per-sample
    let bps = (BITS + 7) / 8;
    let mut samples = [0i32; NS];
    let mut i = 0;
    while i < NS {
        let v: i32 = kani::any();
        kani::assume((v as i64) >= -(1i64 << (BITS - 1)) && (v as i64) < (1i64 << (BITS - 1)));
        samples[i] = v;
        i += 1;
    }
    // reference serialisation: channel-interleaved little-endian signed integers of the
    // byte-rounded width
    let mut bytes = [0u8; NB];
    let mut i = 0;
    while i < NS {
        let le = samples[i].to_le_bytes();
        let mut k = 0;
        while k < 4 {
            if k < bps { bytes[i * bps + k] = le[k]; }
            k += 1;
        }
        i += 1;
    }
    // (1) integer fill, split into two fills of whole inter-channel samples
    let mut ctx = Context::new(BITS, CH);
    unsafe { MD5_NBLOCKS = 0; }
    let r1 = ctx.fill_interleaved(&samples[..CH]);
    let r2 = ctx.fill_interleaved(&samples[CH..]);
    assert!(r1.is_ok() && r2.is_ok());
    std::mem::forget(r1);
    std::mem::forget(r2);
    let _d1 = ctx.md5_digest();
    let n1 = unsafe { MD5_NBLOCKS };
    let b1 = unsafe { MD5_BLOCKS[0] };
    assert!(ctx.total_samples() == NS / CH);
    assert!(ctx.current_frame_number() == Some(if NS > CH { 1 } else { 0 }));
    // (2) byte fill of the same audio
    let mut ctx2 = Context::new(BITS, CH);
    unsafe { MD5_NBLOCKS = 0; }
    let r = ctx2.fill_le_bytes(&bytes, bps);
    assert!(r.is_ok());
    std::mem::forget(r);
    let _d2 = ctx2.md5_digest();
    let n2 = unsafe { MD5_NBLOCKS };
    let b2 = unsafe { MD5_BLOCKS[0] };
    assert!(ctx2.total_samples() == NS / CH);
    // (3) the reference digest over the reference bytes
    unsafe { MD5_NBLOCKS = 0; }
    let _d3 = md5::Md5::digest(&bytes[..]);
    let n3 = unsafe { MD5_NBLOCKS };
    let b3 = unsafe { MD5_BLOCKS[0] };
    assert!(n1 == 1 && n2 == 1 && n3 == 1);
    let mut k = 0;
    while k < 64 {
        assert!(b1[k] == b3[k]);
        assert!(b2[k] == b3[k]);
        k += 1;
    }
    let c = samples[NS - 1] < 0;
    std::mem::forget(ctx);
    std::mem::forget(ctx2);
    c
}

//@ prop: C03
//@ tier: thorough
//@ also: C14
//@ drives: Context::new, Context::fill_interleaved, Context::fill_le_bytes, Context::md5_digest, Context::total_samples, Context::current_frame_number
//@ bound: 1 channel x 2 samples at 12 bits (2 bytes per sample: sign extension of negative samples into the second byte); every sample value of the width; the integer delivery is split into two fills
//@ asserts: the padded message block that reaches the MD5 compression function is byte-identical for (1) integer fills, (2) one packed-byte fill and (3) Md5::digest of the reference serialisation (channel-interleaved little-endian signed integers of the byte-rounded width) - hence equal digests; sample and frame counters agree with the number of fills
//@ stubs: md5::compress::soft::compress_block -> recorder (md-5 itself is trusted)
//@ oracle: c03_oracle_streaminfo_truth
#[kani::proof]
#[kani::unwind(70)]
#[kani::stub(md5::compress::soft::compress_block, md5_compress_stub)]
fn c03_md5_input_bytes_12bit_mono() {
    let c = md5_feed_case::<1, 12, 2, 4>();
    kani::cover!(c);
}

//@ prop: C03
//@ tier: thorough
//@ also: C14
//@ drives: Context::new, Context::fill_interleaved, Context::fill_le_bytes, Context::md5_digest, Context::total_samples, Context::current_frame_number
//@ bound: 2 channels x 1 inter-channel sample at 20 bits (3 bytes per sample); every sample value of the width
//@ asserts: as c03_md5_input_bytes_12bit_mono
//@ stubs: md5::compress::soft::compress_block -> recorder (md-5 itself is trusted)
//@ oracle: c03_oracle_streaminfo_truth
#[kani::proof]
#[kani::unwind(70)]
#[kani::stub(md5::compress::soft::compress_block, md5_compress_stub)]
fn c03_md5_input_bytes_20bit_stereo() {
    let c = md5_feed_case::<2, 20, 2, 6>();
    kani::cover!(c);
}

//@ prop: C03
//@ also: C14
//@ tier: thorough
//@ drives: Context::new, Context::fill_interleaved, Context::fill_le_bytes, Context::md5_digest, Context::total_samples, Context::current_frame_number
//@ bound: 2 channels x 2 inter-channel samples at 12 bits; every sample value of the width; the integer delivery is split into two fills
//@ asserts: as c03_md5_input_bytes_12bit_mono
//@ stubs: md5::compress::soft::compress_block -> recorder (md-5 itself is trusted)
//@ oracle: c03_oracle_streaminfo_truth
#[kani::proof]
#[kani::unwind(70)]
#[kani::stub(md5::compress::soft::compress_block, md5_compress_stub)]
fn c03_md5_input_bytes_12bit_stereo() {
    let c = md5_feed_case::<2, 12, 4, 8>();
    kani::cover!(c);
}

//@ prop: C03
//@ also: C14
//@ tier: thorough
//@ drives: Context::new, Context::fill_interleaved, Context::fill_le_bytes, Context::md5_digest, Context::total_samples, Context::current_frame_number
//@ bound: 1 channel x 3 samples at 24 bits (3 bytes per sample); every sample value of the width; the integer delivery is split into two fills
//@ asserts: as c03_md5_input_bytes_12bit_mono
//@ stubs: md5::compress::soft::compress_block -> recorder (md-5 itself is trusted)
//@ oracle: c03_oracle_streaminfo_truth
#[kani::proof]
#[kani::unwind(70)]
#[kani::stub(md5::compress::soft::compress_block, md5_compress_stub)]
fn c03_md5_input_bytes_24bit_mono() {
    let c = md5_feed_case::<1, 24, 3, 9>();
    kani::cover!(c);
}

//@ prop: C03
//@ tier: thorough
//@ drives: Context::fill_interleaved, Context::fill_le_bytes, Context::md5_digest
//@ bound: 1 channel x 2 samples at 8 bits, 2 channels x 2 samples at 16 and 20 bits, 3 channels x 2 samples at 24 bits
//@ asserts: as c03_md5_input_bytes_12bit_stereo
//@ stubs: md5::compress::soft::compress_block -> recorder
//@ oracle: c03_oracle_streaminfo_truth
#[kani::proof]
#[kani::unwind(70)]
#[kani::stub(md5::compress::soft::compress_block, md5_compress_stub)]
fn c03_md5_input_bytes_more_formats() {
    let sel: u8 = kani::any();
    let c = match sel {
        0 => md5_feed_case::<1, 8, 2, 2>(),
        1 => md5_feed_case::<2, 16, 4, 8>(),
        2 => md5_feed_case::<2, 20, 4, 12>(),
        _ => md5_feed_case::<3, 24, 6, 18>(),
    };
    kani::cover!(c && sel == 2);
}

//@ prop: C03
//@ drives: Context::new, Context::md5_digest on an empty input
//@ bound: every format (concrete: 16 bit stereo); no fill, or empty fills only
//@ asserts: the digest is that of the empty message (one padded block with length 0, identical to Md5::digest(&[])), zero samples, no frame number
//@ stubs: md5::compress::soft::compress_block -> recorder
//@ oracle: c03_oracle_streaminfo_truth
#[kani::proof]
#[kani::unwind(70)]
#[kani::stub(md5::compress::soft::compress_block, md5_compress_stub)]
fn c03_md5_empty_input() {
    let mut ctx = Context::new(16, 2);
    if kani::any() {
        let r = ctx.fill_interleaved(&[]);
        assert!(r.is_ok());
        std::mem::forget(r);
    }
    unsafe { MD5_NBLOCKS = 0; }
    let _d = ctx.md5_digest();
    let b1 = unsafe { MD5_BLOCKS[0] };
    unsafe { MD5_NBLOCKS = 0; }
    let _e = md5::Md5::digest(&[0u8; 0][..]);
    let b2 = unsafe { MD5_BLOCKS[0] };
    let mut k = 0;
    while k < 64 {
        assert!(b1[k] == b2[k]);
        k += 1;
    }
    assert!(b1[0] == 0x80 && b1[56] == 0);
    assert!(ctx.total_samples() == 0 && ctx.current_frame_number().is_none());
    kani::cover!(true);
    std::mem::forget(ctx);
}

//@ prop: C03
//@ tier: thorough
//@ expect: fail
//@ drives: (reachability witness) md5_feed_case
//@ bound: as c03_md5_input_bytes_12bit_mono
//@ stubs: md5::compress::soft::compress_block -> recorder
#[kani::proof]
#[kani::unwind(70)]
#[kani::stub(md5::compress::soft::compress_block, md5_compress_stub)]
fn c03_vacuity_twin() {
    let _ = md5_feed_case::<1, 12, 2, 4>();
    assert!(false);
}
