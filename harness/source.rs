// Harnesses for C14 (integer vs. packed-byte delivery), C03 (MD5/sample-count context),
// C17 (fill argument validation), C10 (frame buffer reuse).  Child module of `flacenc::source`.

use super::*;

pub(crate) fn fmt_stub(_args: std::fmt::Arguments<'_>) -> String {
    String::new()
}

/// Reference: sign-extended little-endian sample of `bps` bytes starting at bytes[off].
fn ref_sample(bytes: &[u8], off: usize, bps: usize) -> i32 {
    let mut v: u32 = 0;
    let mut i = 0;
    while i < 4 {
        if i < bps {
            v |= (bytes[off + i] as u32) << (8 * i);
        }
        i += 1;
    }
    let shift = 32 - 8 * bps as u32;
    ((v << shift) as i32) >> shift
}

pub(crate) fn new_framebuf(channels: usize, size: usize) -> FrameBuf {
    // same state `FrameBuf::with_size` builds (checked by c14_with_size_state)
    FrameBuf { samples: vec![0i32; size * channels], size, filled_size: 0, readbuf: Vec::with_capacity(64) }
}

// ---------------------------------------------------------------- byte -> int conversion
macro_rules! le_bytes_harness {
    ($name:ident, $bps:expr) => {
        #[kani::proof]
        #[kani::unwind(8)]
        fn $name() {
            const N: usize = 3;
            let bytes: [u8; N * $bps] = kani::any();
            let mut dest = [0x5A5A5A5Ai32; N + 1];
            crate::arrayutils::le_bytes_to_i32s(&bytes, &mut dest, $bps);
            let mut t = 0;
            while t < N {
                assert!(dest[t] == ref_sample(&bytes, t * $bps, $bps));
                t += 1;
            }
            assert!(dest[N] == 0x5A5A5A5A);
            kani::cover!(dest[1] < 0 && dest[2] > 0);
        }
    };
}
//@ prop: C14
//@ drives: arrayutils::le_bytes_to_i32s, le_bytes_to_i32s_impl::<1>
//@ bound: 3 samples of 1 byte, every byte value (the loop body is uniform in the sample index)
//@ asserts: each output equals the sign-extended little-endian reference; nothing beyond is written
le_bytes_harness!(c14_le_bytes_1, 1);
//@ prop: C14
//@ drives: arrayutils::le_bytes_to_i32s, le_bytes_to_i32s_impl::<2>
//@ bound: 3 samples of 2 bytes, every byte value
//@ asserts: as c14_le_bytes_1
le_bytes_harness!(c14_le_bytes_2, 2);
//@ prop: C14
//@ drives: arrayutils::le_bytes_to_i32s, le_bytes_to_i32s_impl::<3>
//@ bound: 3 samples of 3 bytes, every byte value
//@ asserts: as c14_le_bytes_1
le_bytes_harness!(c14_le_bytes_3, 3);
//@ prop: C14
//@ drives: arrayutils::le_bytes_to_i32s, le_bytes_to_i32s_impl::<4>
//@ bound: 3 samples of 4 bytes, every byte value
//@ asserts: as c14_le_bytes_1
le_bytes_harness!(c14_le_bytes_4, 4);

// ---------------------------------------------------------------- FrameBuf: byte fill == int fill
/// Fills two identical buffers, one through bytes and one through reference integers, and
/// compares the observable state.  CH channels, K inter-channel samples, BPS bytes per sample.
fn fill_equiv<const CH: usize, const K: usize, const BPS: usize, const NB: usize, const NI: usize>() -> bool {
    // NB = CH*K*BPS bytes, NI = CH*K ints (const generics cannot be multiplied on stable)
    let bytes: [u8; NB] = kani::any();
    let mut ints = [0i32; NI];
    let mut i = 0;
    while i < NI {
        ints[i] = ref_sample(&bytes, i * BPS, BPS);
        i += 1;
    }
    let mut a = new_framebuf(CH, 32);
    let mut b = new_framebuf(CH, 32);
    // arbitrary previous content (a previous, longer block): both buffers hold the same garbage
    let garbage: i32 = kani::any();
    let gpos: usize = kani::any();
    kani::assume(gpos < 32 * CH);
    a.samples[gpos] = garbage;
    b.samples[gpos] = garbage;
    let prev_filled: usize = kani::any();
    kani::assume(prev_filled <= 32);
    a.filled_size = prev_filled;
    b.filled_size = prev_filled;

    let ra = a.fill_le_bytes(&bytes, BPS);
    let rb = b.fill_interleaved(&ints);
    let oka = ra.is_ok();
    let okb = rb.is_ok();
    std::mem::forget(ra);
    std::mem::forget(rb);
    assert!(oka && okb);
    assert!(a.filled_size() == K && b.filled_size() == K);
    let mut ch = 0;
    while ch < CH {
        let sa = a.channel_slice(ch);
        let sb = b.channel_slice(ch);
        assert!(sa.len() == K && sb.len() == K);
        let mut t = 0;
        while t < K {
            assert!(sa[t] == sb[t]);
            assert!(sb[t] == ints[t * CH + ch]);
            t += 1;
        }
        // the rest of the channel row is cleared: nothing of the previous block survives
        let mut t = K;
        while t < 32 {
            assert!(a.samples[ch * 32 + t] == 0 && b.samples[ch * 32 + t] == 0);
            t += 1;
        }
        ch += 1;
    }
    let c = K == 0 || ints[NI - 1] < 0;
    std::mem::forget(a);
    std::mem::forget(b);
    c
}

macro_rules! fill_equiv_harness {
    ($name:ident, $ch:expr, $bps:expr) => {
        #[kani::proof]
        #[kani::unwind(36)]
        #[kani::stub(alloc::fmt::format, fmt_stub)]
        fn $name() {
            let k: u8 = kani::any();
            let c = if k == 0 {
                fill_equiv::<$ch, 0, $bps, 0, 0>()
            } else if k == 1 {
                fill_equiv::<$ch, 1, $bps, { $ch * $bps }, { $ch }>()
            } else if k == 2 {
                fill_equiv::<$ch, 2, $bps, { $ch * 2 * $bps }, { $ch * 2 }>()
            } else {
                fill_equiv::<$ch, 3, $bps, { $ch * 3 * $bps }, { $ch * 3 }>()
            };
            kani::cover!(c);
        }
    };
}
//@ prop: C14
//@ also: C10
//@ drives: FrameBuf::fill_le_bytes, FrameBuf::fill_interleaved, arrayutils::deinterleave (deinterleave_ch1), le_bytes_to_i32s, FrameBuf::channel_slice
//@ bound: 1 channel, 2 bytes/sample, 32-sample buffer holding arbitrary previous content (one arbitrary cell, arbitrary previous fill level), fill length 0..=3 inter-channel samples, every byte value
//@ asserts: byte fill and integer fill of the sign-extended reference leave identical channel slices and fill level; the slices equal the reference de-interleaving; the rest of each row is zero (no history)
//@ stubs: alloc::fmt::format -> empty string
fill_equiv_harness!(c14_fill_equiv_ch1_b2, 1, 2);
//@ prop: C14
//@ also: C10
//@ drives: FrameBuf::fill_le_bytes, FrameBuf::fill_interleaved, deinterleave_ch2, le_bytes_to_i32s_impl::<3>
//@ bound: 2 channels, 3 bytes/sample, 32-sample buffer with arbitrary previous content, fill length 0..=3
//@ asserts: as c14_fill_equiv_ch1_b2
//@ stubs: alloc::fmt::format -> empty string
fill_equiv_harness!(c14_fill_equiv_ch2_b3, 2, 3);
//@ prop: C14
//@ tier: thorough
//@ drives: FrameBuf::fill_le_bytes, FrameBuf::fill_interleaved, deinterleave_ch2, le_bytes_to_i32s_impl::<2>
//@ bound: 2 channels, 2 bytes/sample, fill length 0..=3
//@ asserts: as c14_fill_equiv_ch1_b2
fill_equiv_harness!(c14_fill_equiv_ch2_b2, 2, 2);
//@ prop: C14
//@ drives: FrameBuf::fill_le_bytes, FrameBuf::fill_interleaved, deinterleave_ch3, le_bytes_to_i32s_impl::<1>
//@ bound: 3 channels, 1 byte/sample, fill length 0..=3
//@ asserts: as c14_fill_equiv_ch1_b2
fill_equiv_harness!(c14_fill_equiv_ch3_b1, 3, 1);
//@ prop: C14
//@ tier: thorough
//@ drives: FrameBuf::fill_le_bytes, FrameBuf::fill_interleaved, deinterleave_ch4, le_bytes_to_i32s_impl::<4>
//@ bound: 4 channels, 4 bytes/sample, fill length 0..=3
//@ asserts: as c14_fill_equiv_ch1_b2
fill_equiv_harness!(c14_fill_equiv_ch4_b4, 4, 4);
//@ prop: C14
//@ tier: thorough
//@ drives: FrameBuf::fill_le_bytes, FrameBuf::fill_interleaved, deinterleave_ch5
//@ bound: 5 channels, 2 bytes/sample, fill length 0..=3
//@ asserts: as c14_fill_equiv_ch1_b2
fill_equiv_harness!(c14_fill_equiv_ch5_b2, 5, 2);
//@ prop: C14
//@ drives: FrameBuf::fill_le_bytes, FrameBuf::fill_interleaved, deinterleave_ch6
//@ bound: 6 channels, 3 bytes/sample, fill length 0..=3
//@ asserts: as c14_fill_equiv_ch1_b2
fill_equiv_harness!(c14_fill_equiv_ch6_b3, 6, 3);
//@ prop: C14
//@ tier: thorough
//@ drives: FrameBuf::fill_le_bytes, FrameBuf::fill_interleaved, deinterleave_ch7
//@ bound: 7 channels, 1 byte/sample, fill length 0..=3
//@ asserts: as c14_fill_equiv_ch1_b2
fill_equiv_harness!(c14_fill_equiv_ch7_b1, 7, 1);
//@ prop: C14
//@ drives: FrameBuf::fill_le_bytes, FrameBuf::fill_interleaved, deinterleave_ch8
//@ bound: 8 channels, 2 bytes/sample, fill length 0..=3
//@ asserts: as c14_fill_equiv_ch1_b2
fill_equiv_harness!(c14_fill_equiv_ch8_b2, 8, 2);

//@ prop: C14
//@ drives: FrameBuf::with_size
//@ bound: channels 1..=8 x block size 32/33 (concrete pairs chosen symbolically)
//@ asserts: the constructor yields exactly the state the fill harnesses start from (all-zero samples, size, fill level 0)
//@ stubs: alloc::fmt::format -> empty string
#[kani::proof]
#[kani::unwind(300)]
#[kani::stub(alloc::fmt::format, fmt_stub)]
fn c14_with_size_state() {
    let sel: u8 = kani::any();
    let (ch, size) = match sel {
        0 => (1usize, 32usize),
        1 => (2, 33),
        2 => (8, 32),
        _ => (3, 32),
    };
    match FrameBuf::with_size(ch, size) {
        Ok(fb) => {
            assert!(fb.size() == size && fb.filled_size() == 0 && fb.channels() == ch);
            assert!(fb.samples.len() == ch * size);
            let i: usize = kani::any();
            kani::assume(i < ch * size);
            assert!(fb.samples[i] == 0);
            kani::cover!(ch == 8);
            std::mem::forget(fb);
        }
        Err(e) => {
            std::mem::forget(e);
            assert!(false);
        }
    }
}

//@ prop: C14
//@ expect: fail
//@ drives: (reachability witness) fill_equiv::<2,2,3>
//@ bound: as c14_fill_equiv_ch2_b3 with 2 samples
#[kani::proof]
#[kani::unwind(36)]
fn c14_vacuity_twin() {
    let _ = fill_equiv::<2, 2, 3, 12, 4>();
    assert!(false);
}
