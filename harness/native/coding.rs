// Native (non-solver) property-level oracles, compiled into the shadow crate under
// cfg(test).  They are run only to confirm a solver counterexample of a harness whose
// code stubs make a literal replay impossible (DESIGN.md 2.5): the oracle states the
// property itself on public-API inputs of the class the counterexample points at.
use super::*;
use crate::component::BitRepr;
use crate::error::Verify;
use crate::source::{Fill, FrameBuf};

fn lcg(seed: &mut u64) -> i32 {
    *seed = seed.wrapping_mul(6364136223846793005).wrapping_add(1442695040888963407);
    ((*seed >> 33) as i32) % 2001 - 1000
}

/// C09: no frame larger than its verbatim coding (+2 bytes per channel).
#[test]
fn c09_oracle_noise_restricted_rice() {
    let mut worst: Option<(usize, usize, String)> = None;
    for (max_p, bitcount, block) in [(0usize, false, 256usize), (0, true, 256), (1, false, 4096), (2, false, 64)] {
        let mut cfg = config::Encoder::default();
        cfg.multithread = false;
        cfg.subframe_coding.prc.max_parameter = max_p;
        cfg.subframe_coding.use_lpc = false;
        if bitcount {
            cfg.subframe_coding.fixed.order_sel = config::OrderSel::BitCount;
        }
        let cfg = cfg.into_verified().expect("valid config");
        let mut seed = 12345u64;
        let samples: Vec<i32> = (0..block).map(|_| lcg(&mut seed)).collect();
        let mut fb = FrameBuf::with_size(1, block).unwrap();
        fb.fill_interleaved(&samples).unwrap();
        let info = StreamInfo::new(44100, 1, 16).unwrap();
        let frame = encode_fixed_size_frame(&cfg, &fb, 0, &info).unwrap();
        let verbatim = frame.header().count_bits() + (8 + 16 * block) + 7 + 16;
        let got = frame.count_bits();
        if got > verbatim + 16 {
            worst = Some((got, verbatim, format!("max_parameter={max_p} bitcount={bitcount} block={block}")));
        }
    }
    assert!(worst.is_none(), "frame larger than verbatim: {worst:?}");
}

/// C04: STREAMINFO block-size / frame-size bounds for inputs that are not a multiple of the
/// block size (RFC 9639 section 8.2), through the public API with the real frame encoder.
#[test]
fn c04_oracle_short_final_block() {
    use crate::source::MemSource;
    let mut bad = Vec::new();
    for (len, bs) in [(33usize, 32usize), (65, 32), (40, 33), (20, 32), (5, 32), (1, 32), (16, 4096), (4097, 4096)] {
        let mut cfg = config::Encoder::default();
        cfg.multithread = false;
        let cfg = cfg.into_verified().unwrap();
        let samples: Vec<i32> = (0..len).map(|i| (i as i32 % 7) - 3).collect();
        let stream = encode_with_fixed_block_size(&cfg, MemSource::from_samples(&samples, 1, 16, 44100), bs).unwrap();
        let info = stream.stream_info();
        let n = stream.frame_count();
        let sizes: Vec<usize> = (0..n).map(|k| stream.frame(k).unwrap().count_bits() / 8).collect();
        let ok = info.max_block_size() == bs
            && info.min_block_size() >= 16
            && (0..n.saturating_sub(1)).all(|k| info.min_block_size() <= stream.frame(k).unwrap().block_size())
            && info.min_frame_size() == *sizes.iter().min().unwrap()
            && info.max_frame_size() == *sizes.iter().max().unwrap()
            && info.total_samples() == len;
        if !ok {
            bad.push((len, bs, info.min_block_size(), info.max_block_size(), info.min_frame_size(), info.max_frame_size()));
        }
    }
    assert!(bad.is_empty(), "STREAMINFO bounds violated (len, block, min_bs, max_bs, min_fs, max_fs): {bad:?}");
}

/// C09 (stereo): anti-correlated full-scale noise, where mid is cheap and left/right/side are
/// not: the frame must not exceed two independent verbatim subframes (+2 bytes per channel).
#[test]
fn c09_oracle_stereo_anticorrelated() {
    let mut worst = Vec::new();
    for (bps, n) in [(16usize, 4096usize), (24, 1024), (16, 576)] {
        let mut cfg = config::Encoder::default();
        cfg.multithread = false;
        let cfg = cfg.into_verified().expect("valid config");
        let mut seed = 4242u64;
        let mut data = Vec::with_capacity(2 * n);
        for _ in 0..n {
            seed = seed.wrapping_mul(6364136223846793005).wrapping_add(1442695040888963407);
            let span = 1i64 << bps;
            let l = (((seed >> 16) as i64).rem_euclid(span) - span / 2) as i32;
            data.push(l);
            data.push(!l);
        }
        let mut fb = FrameBuf::with_size(2, n).unwrap();
        fb.fill_interleaved(&data).unwrap();
        let info = StreamInfo::new(44100, 2, bps).unwrap();
        let frame = encode_fixed_size_frame(&cfg, &fb, 0, &info).unwrap();
        let bound = frame.header().count_bits() + 2 * (8 + bps * n) + 7 + 16 + 32;
        if frame.count_bits() > bound {
            worst.push((bps, n, frame.count_bits(), bound));
        }
    }
    assert!(worst.is_empty(), "stereo frame larger than independent verbatim: {worst:?}");
}
