// Native property-level oracle for C13: the partitioning returned by the real search against a
// brute force over the whole search space (orders 0..=finest, parameters 0..=max), on residual
// families that include non-monotone cost profiles across partition orders.
use super::*;

fn cost(errors: &[i32], warmup: usize, order: usize, max_p: usize) -> usize {
    let nparts = 1usize << order;
    let plen = errors.len() / nparts;
    let mut total = 0usize;
    for part in 0..nparts {
        let start = std::cmp::max(part * plen, warmup);
        let end = (part + 1) * plen;
        let mut best = usize::MAX;
        for p in 0..=max_p {
            let mut bits = 4usize;
            for e in &errors[start..end] {
                bits += (encode_signbit(*e) >> p) as usize + 1 + p;
            }
            best = best.min(bits);
        }
        total += best;
    }
    total
}

#[test]
fn c13_oracle_bruteforce_optimality() {
    let mut bad = Vec::new();
    let mut seed = 99u64;
    let mut rnd = |m: i32| -> i32 {
        seed = seed.wrapping_mul(6364136223846793005).wrapping_add(1442695040888963407);
        ((seed >> 33) as i32).rem_euclid(m)
    };
    let mut signals: Vec<(String, Vec<i32>)> = Vec::new();
    // alternating 64-sample partitions that favour parameter 0 resp. 1 by a few bits: finer
    // orders first lose, the coarsest wins (non-monotone cost across orders)
    for &n in &[256usize, 512, 1024, 4096] {
        let mut s = Vec::with_capacity(n);
        for t in 0..n {
            let part = t / 64;
            let k = t % 64;
            s.push(if part % 2 == 0 { if k < 58 { 1 } else { 0 } } else if k < 58 { 1 } else { 2 });
        }
        signals.push((format!("alternating n={n}"), s));
    }
    // piecewise-stationary noise, amplitude changing per 64/128/256 samples
    for &(n, seg) in &[(512usize, 64usize), (1024, 128), (2048, 256), (192, 64), (320, 64)] {
        let mut s = Vec::with_capacity(n);
        let mut amp = 1;
        for t in 0..n {
            if t % seg == 0 { amp = 1 << rnd(12); }
            s.push(rnd(2 * amp + 1) - amp);
        }
        signals.push((format!("piecewise n={n} seg={seg}"), s));
    }
    for (name, s) in &signals {
        for &max_p in &[0usize, 3, 14] {
            for &warmup in &[0usize, 2] {
                let finest = finest_partition_order(s.len(), std::cmp::max(64, warmup));
                let want = (0..=finest).map(|o| cost(s, warmup, o, max_p)).min().unwrap();
                let got = find_partitioned_rice_parameter(s, warmup, max_p);
                let got_cost = cost(s, warmup, got.order, max_p);
                if got.code_bits != want || got_cost != want || got.ps.len() != 1 << got.order {
                    bad.push(format!("{name} max_p={max_p} warmup={warmup}: chosen order {} costs {} (reported {}), optimum {}", got.order, got_cost, got.code_bits, want));
                }
            }
        }
    }
    assert!(bad.is_empty(), "Rice partitioning not optimal: {bad:?}");
}
