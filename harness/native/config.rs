// Native property-level oracle for C07: verification vs. the documented ranges on a grid of
// boundary and special values (min-1, min, max, max+1, extremes, NaN/inf/-0.0), every field
// varied alone and in ALL PAIRS of (field, value) choices (two cooperating fields).  Used to confirm a solver counterexample of the
// exactness harnesses, whose counterexample extraction (a trace through string handling)
// takes 20+ minutes.
use super::*;

fn spec(c: &Encoder) -> bool {
    let q = &c.subframe_coding.qlpc;
    (32..=32767).contains(&c.block_size)
        && c.subframe_coding.fixed.max_order <= 4
        && match c.subframe_coding.fixed.order_sel {
            OrderSel::BitCount => true,
            OrderSel::ApproxEnt { partitions } => (1..=64).contains(&partitions),
        }
        && (1..=24).contains(&q.lpc_order)
        && (1..=15).contains(&q.quant_precision)
        && (cfg!(feature = "experimental") || (!q.use_direct_mse && q.mae_optimization_steps == 0))
        && match q.window {
            Window::Rectangle => true,
            Window::Tukey { alpha } => !alpha.is_nan() && (0.0..=1.0).contains(&alpha),
        }
        && c.subframe_coding.prc.max_parameter <= 14
}

#[test]
fn c07_oracle_boundary_grid() {
    type Setter = Box<dyn Fn(&mut Encoder)>;
    let usizes = |lo: usize, hi: usize| -> Vec<usize> {
        let mut v = vec![0, 1, 2, lo.saturating_sub(1), lo, lo + 1, hi - 1, hi, hi + 1, 255, 256, 65535, 65536, usize::MAX];
        v.sort_unstable();
        v.dedup();
        v
    };
    let alphas = [0.0f32, -0.0, 1.0, 0.5, -1e-7, 1.0 + 1e-6, -1.0, 2.0, f32::NAN, -f32::NAN, f32::INFINITY, f32::NEG_INFINITY, f32::MIN_POSITIVE];
    // one entry per field: (name, list of (label, setter))
    let mut fields: Vec<(&str, Vec<(String, Setter)>)> = Vec::new();
    macro_rules! usize_field {
        ($name:literal, $lo:expr, $hi:expr, |$c:ident, $v:ident| $set:expr) => {
            fields.push(($name, usizes($lo, $hi).into_iter().map(|$v| (format!("{}={}", $name, $v), Box::new(move |$c: &mut Encoder| $set) as Setter)).collect()));
        };
    }
    macro_rules! bool_field {
        ($name:literal, |$c:ident, $v:ident| $set:expr) => {
            fields.push(($name, [false, true].into_iter().map(|$v| (format!("{}={}", $name, $v), Box::new(move |$c: &mut Encoder| $set) as Setter)).collect()));
        };
    }
    usize_field!("block_size", 32, 32767, |c, v| c.block_size = v);
    usize_field!("fixed.max_order", 0, 4, |c, v| c.subframe_coding.fixed.max_order = v);
    {
        let mut l: Vec<(String, Setter)> = usizes(1, 64).into_iter().map(|v| (format!("ApproxEnt.partitions={v}"), Box::new(move |c: &mut Encoder| c.subframe_coding.fixed.order_sel = OrderSel::ApproxEnt { partitions: v }) as Setter)).collect();
        l.push(("BitCount".to_owned(), Box::new(|c: &mut Encoder| c.subframe_coding.fixed.order_sel = OrderSel::BitCount)));
        fields.push(("order_sel", l));
    }
    usize_field!("lpc_order", 1, 24, |c, v| c.subframe_coding.qlpc.lpc_order = v);
    usize_field!("quant_precision", 1, 15, |c, v| c.subframe_coding.qlpc.quant_precision = v);
    usize_field!("max_parameter", 0, 14, |c, v| c.subframe_coding.prc.max_parameter = v);
    {
        let mut l: Vec<(String, Setter)> = alphas.into_iter().map(|a| (format!("alpha={a:?}"), Box::new(move |c: &mut Encoder| c.subframe_coding.qlpc.window = Window::Tukey { alpha: a }) as Setter)).collect();
        l.push(("Rectangle".to_owned(), Box::new(|c: &mut Encoder| c.subframe_coding.qlpc.window = Window::Rectangle)));
        fields.push(("window", l));
    }
    bool_field!("use_direct_mse", |c, v| c.subframe_coding.qlpc.use_direct_mse = v);
    fields.push(("mae_steps", [0usize, 1, 3, usize::MAX].into_iter().map(|v| (format!("mae_steps={v}"), Box::new(move |c: &mut Encoder| c.subframe_coding.qlpc.mae_optimization_steps = v) as Setter)).collect()));
    bool_field!("use_constant", |c, v| c.subframe_coding.use_constant = v);
    bool_field!("use_fixed", |c, v| c.subframe_coding.use_fixed = v);
    bool_field!("use_lpc", |c, v| c.subframe_coding.use_lpc = v);
    bool_field!("use_leftside", |c, v| c.stereo_coding.use_leftside = v);
    bool_field!("use_rightside", |c, v| c.stereo_coding.use_rightside = v);
    bool_field!("use_midside", |c, v| c.stereo_coding.use_midside = v);
    bool_field!("multithread", |c, v| c.multithread = v);
    fields.push(("workers", [0usize, 1, 7, usize::MAX].into_iter().map(|v| (format!("workers={v}"), Box::new(move |c: &mut Encoder| c.workers = std::num::NonZeroUsize::new(v)) as Setter)).collect()));

    let mut bad = Vec::new();
    let mut n = 0usize;
    let mut check = |c: Encoder, what: String| {
        n += 1;
        let accepted = c.verify().is_ok();
        if accepted != spec(&c) || accepted != c.clone().into_verified().is_ok() {
            if bad.len() < 12 {
                bad.push(what);
            }
        }
    };
    check(Encoder::default(), "default".to_owned());
    for (i, (_, li)) in fields.iter().enumerate() {
        for (la, sa) in li {
            let mut c = Encoder::default();
            sa(&mut c);
            check(c, la.clone());
            for (_, lj) in fields.iter().skip(i + 1) {
                for (lb, sb) in lj {
                    let mut c = Encoder::default();
                    sa(&mut c);
                    sb(&mut c);
                    check(c, format!("{la} & {lb}"));
                }
            }
        }
    }
    assert!(n > 3000);
    assert!(bad.is_empty(), "verify() disagrees with the documented ranges for (first 12): {bad:?}");
}
