// Native property-level oracle for C07: verification vs. the documented ranges on a grid of
// boundary and special values (min-1, min, max, max+1, extremes, NaN/inf/-0.0), every field
// varied alone and in pairs with block_size.  Used to confirm a solver counterexample of the
// exactness harnesses, whose counterexample extraction (a trace through string handling)
// takes 20+ minutes.
use super::*;

fn spec(c: &Encoder) -> bool {
    let q = &c.subframe_coding.qlpc;
    (32..=32767).contains(&c.block_size)
        && c.subframe_coding.fixed.max_order <= 4
        && match c.subframe_coding.fixed.order_sel {
            OrderSel::BitCount => true,
            OrderSel::ApproxEnt { partitions } => (1..=64).contains(&partitions),
        }
        && (1..=24).contains(&q.lpc_order)
        && (1..=15).contains(&q.quant_precision)
        && (cfg!(feature = "experimental") || (!q.use_direct_mse && q.mae_optimization_steps == 0))
        && match q.window {
            Window::Rectangle => true,
            Window::Tukey { alpha } => !alpha.is_nan() && (0.0..=1.0).contains(&alpha),
        }
        && c.subframe_coding.prc.max_parameter <= 14
}

#[test]
fn c07_oracle_boundary_grid() {
    let usizes = |lo: usize, hi: usize| -> Vec<usize> {
        let mut v = vec![0, 1, lo.saturating_sub(1), lo, lo + 1, hi - 1, hi, hi + 1, 255, 256, 65535, 65536, usize::MAX];
        v.sort_unstable();
        v.dedup();
        v
    };
    let alphas = [0.0f32, -0.0, 1.0, 0.5, -1e-7, 1.0 + 1e-6, -1.0, 2.0, f32::NAN, f32::INFINITY, f32::NEG_INFINITY, f32::MIN_POSITIVE];
    let mut bad = Vec::new();
    let mut check = |c: Encoder, what: String| {
        if c.verify().is_ok() != spec(&c) {
            bad.push(what);
        }
    };
    for bs in usizes(32, 32767) {
        let mut c = Encoder::default();
        c.block_size = bs;
        check(c, format!("block_size={bs}"));
    }
    for v in usizes(0, 4) {
        let mut c = Encoder::default();
        c.subframe_coding.fixed.max_order = v;
        check(c, format!("fixed.max_order={v}"));
    }
    for v in usizes(1, 64) {
        let mut c = Encoder::default();
        c.subframe_coding.fixed.order_sel = OrderSel::ApproxEnt { partitions: v };
        check(c, format!("ApproxEnt.partitions={v}"));
    }
    for v in usizes(1, 24) {
        let mut c = Encoder::default();
        c.subframe_coding.qlpc.lpc_order = v;
        check(c, format!("lpc_order={v}"));
    }
    for v in usizes(1, 15) {
        let mut c = Encoder::default();
        c.subframe_coding.qlpc.quant_precision = v;
        check(c, format!("quant_precision={v}"));
    }
    for v in usizes(0, 14) {
        let mut c = Encoder::default();
        c.subframe_coding.prc.max_parameter = v;
        check(c, format!("max_parameter={v}"));
    }
    for a in alphas {
        let mut c = Encoder::default();
        c.subframe_coding.qlpc.window = Window::Tukey { alpha: a };
        check(c, format!("alpha={a:?}"));
    }
    for (mse, steps) in [(true, 0usize), (false, 1), (true, 3)] {
        let mut c = Encoder::default();
        c.subframe_coding.qlpc.use_direct_mse = mse;
        c.subframe_coding.qlpc.mae_optimization_steps = steps;
        check(c, format!("use_direct_mse={mse} mae_steps={steps}"));
    }
    {
        let mut c = Encoder::default();
        c.subframe_coding.fixed.order_sel = OrderSel::BitCount;
        c.subframe_coding.qlpc.window = Window::Rectangle;
        check(c, "BitCount+Rectangle".to_owned());
    }
    assert!(bad.is_empty(), "verify() disagrees with the documented ranges for: {bad:?}");
}
