// Native property-level oracle for the par.rs harness (see harness/native/coding.rs for the
// convention): run only to confirm a solver counterexample through the public API.
use super::*;
use crate::error::Verify;

/// C17: a block-size argument outside 32..=32767 is an error of the multi-thread stream-level
/// entry point, never a panic.
#[test]
fn c17_oracle_par_block_size_argument() {
    let mut bad = Vec::new();
    for bs in [0usize, 1, 15, 16, 31, 32768, 40000, 65535, 65536, (1 << 32) + 4096, usize::MAX] {
        let cfg = config::Encoder::default().into_verified().unwrap();
        let samples = vec![0i32; 200];
        let src = crate::source::MemSource::from_samples(&samples, 1, 16, 44100);
        let r = std::panic::catch_unwind(move || encode_with_fixed_block_size(&cfg, src, bs).is_err());
        match r {
            Ok(true) => {}
            Ok(false) => bad.push(format!("block size {bs}: accepted")),
            Err(_) => bad.push(format!("block size {bs}: panic")),
        }
    }
    assert!(bad.is_empty(), "invalid block-size argument in multi-thread mode: {bad:?}");
}
