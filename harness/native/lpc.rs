// Native property-level oracle for C10 (see /verif/harness/native/coding.rs for the idea).
use crate::component::BitRepr;
use crate::error::Verify;

fn encode(alpha: f32, signal: &[i32]) -> Vec<u8> {
    let mut cfg = crate::config::Encoder::default();
    cfg.multithread = false;
    cfg.block_size = 256;
    cfg.subframe_coding.qlpc.window = crate::config::Window::Tukey { alpha };
    let cfg = cfg.into_verified().unwrap();
    let src = crate::source::MemSource::from_samples(signal, 1, 16, 44100);
    let stream = crate::coding::encode_with_fixed_block_size(&cfg, src, 256).unwrap();
    let mut sink = crate::bitsink::ByteSink::new();
    stream.write(&mut sink).unwrap();
    sink.into_inner()
}

/// C10: the bytes for (config, input) must not depend on what the thread encoded before.
/// Two Tukey parameters closer than 2^-16 are encoded on a fresh thread and after each other.
#[test]
fn c10_oracle_window_cache_history() {
    let mut seed = 1u64;
    let mut differing = Vec::new();
    for trial in 0..12 {
        let n = 256 * 40;
        let mut signal = Vec::with_capacity(n);
        for t in 0..n {
            seed = seed.wrapping_mul(6364136223846793005).wrapping_add(1442695040888963407);
            let noise = ((seed >> 40) as i32 % 200) - 100;
            signal.push((8000.0 * ((t as f64) * 0.01 * (1.0 + trial as f64 * 0.13)).sin()) as i32 + noise);
        }
        let a1 = 0.3f32 + 0.03 * trial as f32;
        let a2 = a1 + 1.0e-5; // < 2^-16 apart
        let s1 = signal.clone();
        let fresh = std::thread::spawn(move || encode(a2, &s1)).join().unwrap();
        let s2 = signal.clone();
        let after = std::thread::spawn(move || {
            let _ = encode(a1, &s2);
            encode(a2, &s2)
        })
        .join()
        .unwrap();
        if fresh != after {
            differing.push((a1, a2));
        }
    }
    assert!(differing.is_empty(), "stream bytes depend on the previously used window: {differing:?}");
}
