// Native property-level oracle for C03 (STREAMINFO truth) through the public API.
use super::*;
use crate::component::BitRepr;
use crate::error::Verify;

/// C03: STREAMINFO MD5 / sample count / format for several formats, integer and byte delivery.
#[test]
fn c03_oracle_streaminfo_truth() {
    let mut bad = Vec::new();
    for (bits, ch, len, bs) in [(8usize, 1usize, 100usize, 32usize), (12, 2, 70, 32), (16, 2, 64, 32), (20, 3, 33, 32), (24, 1, 65, 64), (12, 1, 0, 32)] {
        let bps = (bits + 7) / 8;
        let mut seed = 7u64 + bits as u64;
        let samples: Vec<i32> = (0..len * ch)
            .map(|_| {
                seed = seed.wrapping_mul(6364136223846793005).wrapping_add(1442695040888963407);
                let span = 1i64 << bits;
                (((seed >> 20) as i64 % span) - (span / 2)) as i32
            })
            .collect();
        let mut bytes = Vec::new();
        for v in &samples {
            bytes.extend_from_slice(&v.to_le_bytes()[..bps]);
        }
        let want: [u8; 16] = md5::Md5::digest(&bytes).into();
        let mut cfg = crate::config::Encoder::default();
        cfg.multithread = false;
        let cfg = cfg.into_verified().unwrap();
        let src = MemSource::from_samples(&samples, ch, bits, 44100);
        let stream = crate::coding::encode_with_fixed_block_size(&cfg, src, bs).unwrap();
        let info = stream.stream_info();
        if info.md5_digest() != &want || info.total_samples() != len || info.channels() != ch || info.bits_per_sample() != bits || info.sample_rate() != 44100 {
            bad.push(format!("integer path bits={bits} ch={ch} len={len}"));
        }
        // byte delivery of the same audio
        let mut ctx = Context::new(bits, ch);
        let mut ok = true;
        for chunk in bytes.chunks(bs * ch * bps) {
            ok &= ctx.fill_le_bytes(chunk, bps).is_ok();
        }
        if !ok || ctx.md5_digest() != want || ctx.total_samples() != len {
            bad.push(format!("byte path bits={bits} ch={ch} len={len}"));
        }
        // STREAMINFO as serialised
        let mut sink = crate::bitsink::ByteSink::new();
        info.write(&mut sink).unwrap();
        let b = sink.as_slice();
        if b.len() != 34 || b[18..34] != want[..] {
            bad.push(format!("serialised digest bits={bits} ch={ch}"));
        }
    }
    assert!(bad.is_empty(), "STREAMINFO does not state the truth for: {bad:?}");
}
