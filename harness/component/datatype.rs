// Generators and harnesses that need private access to `component::datatype`.

use super::*;
use crate::error::Verify;

pub(crate) fn fmt_stub(_args: std::fmt::Arguments<'_>) -> String {
    String::new()
}

/// Arbitrary block-size spec as the encoder/parser can produce it (no Reserved).
pub(crate) fn any_block_size_spec() -> BlockSizeSpec {
    let k: u8 = kani::any();
    let x: u8 = kani::any();
    let y: u16 = kani::any();
    match k % 5 {
        0 => BlockSizeSpec::S192,
        1 => {
            kani::assume(x <= 3);
            BlockSizeSpec::Pow2Mul576(x)
        }
        2 => BlockSizeSpec::ExtraByte(x),
        3 => {
            kani::assume(y <= 32766); // block sizes up to 32767 (subset-independent limit of this encoder)
            BlockSizeSpec::ExtraTwoBytes(y)
        }
        _ => {
            kani::assume(x <= 7);
            BlockSizeSpec::Pow2Mul256(x)
        }
    }
}

pub(crate) fn any_sample_rate_spec() -> SampleRateSpec {
    let k: u8 = kani::any();
    let x: u8 = kani::any();
    let y: u16 = kani::any();
    match k % 15 {
        0 => SampleRateSpec::Unspecified,
        1 => SampleRateSpec::R88_2kHz,
        2 => SampleRateSpec::R176_4kHz,
        3 => SampleRateSpec::R192kHz,
        4 => SampleRateSpec::R8kHz,
        5 => SampleRateSpec::R16kHz,
        6 => SampleRateSpec::R22_05kHz,
        7 => SampleRateSpec::R24kHz,
        8 => SampleRateSpec::R32kHz,
        9 => SampleRateSpec::R44_1kHz,
        10 => SampleRateSpec::R48kHz,
        11 => SampleRateSpec::R96kHz,
        12 => SampleRateSpec::KHz(x),
        13 => SampleRateSpec::Hz(y),
        _ => SampleRateSpec::DaHz(y),
    }
}

pub(crate) fn any_sample_size_spec() -> SampleSizeSpec {
    let k: u8 = kani::any();
    match k % 7 {
        0 => SampleSizeSpec::Unspecified,
        1 => SampleSizeSpec::B8,
        2 => SampleSizeSpec::B12,
        3 => SampleSizeSpec::B16,
        4 => SampleSizeSpec::B20,
        5 => SampleSizeSpec::B24,
        _ => SampleSizeSpec::B32,
    }
}

pub(crate) fn any_channel_assignment() -> ChannelAssignment {
    let k: u8 = kani::any();
    let n: u8 = kani::any();
    match k % 4 {
        0 => {
            kani::assume(n >= 1 && n <= 8);
            ChannelAssignment::Independent(n)
        }
        1 => ChannelAssignment::LeftSide,
        2 => ChannelAssignment::RightSide,
        _ => ChannelAssignment::MidSide,
    }
}

/// Arbitrary valid frame header: every code class, frame numbers < 2^31, sample numbers < 2^36.
pub(crate) fn any_frame_header() -> FrameHeader {
    let variable: bool = kani::any();
    let frame_number: u32 = kani::any();
    let start_sample_number: u64 = kani::any();
    kani::assume(frame_number < (1u32 << 31));
    kani::assume(start_sample_number < (1u64 << 36));
    FrameHeader {
        variable_block_size: variable,
        block_size_spec: any_block_size_spec(),
        channel_assignment: any_channel_assignment(),
        sample_size_spec: any_sample_size_spec(),
        sample_rate_spec: any_sample_rate_spec(),
        frame_number,
        start_sample_number,
    }
}

pub(crate) fn any_stream_info_fields() -> StreamInfo {
    let channels: u8 = kani::any();
    let bits: u8 = kani::any();
    let rate: u32 = kani::any();
    let total: u64 = kani::any();
    kani::assume(channels >= 1 && channels <= 8);
    kani::assume(bits >= 4 && bits <= 32);
    kani::assume(rate < (1 << 20));
    kani::assume(total < (1u64 << 36));
    let minf: u32 = kani::any();
    let maxf: u32 = kani::any();
    kani::assume(minf < (1 << 24) && maxf < (1 << 24));
    StreamInfo {
        min_block_size: kani::any(),
        max_block_size: kani::any(),
        min_frame_size: minf,
        max_frame_size: maxf,
        sample_rate: rate,
        channels,
        bits_per_sample: bits,
        total_samples: total,
        md5: kani::any(),
    }
}

// =====================================================================================
// C18: public constructors are total; Ok(c) implies c verifies and serialises to exactly
// count_bits() bits.  C17: invalid arguments give errors.
// =====================================================================================
use crate::bitsink::MemSink;
use crate::component::bitrepr::BitRepr;

/// Ok(c) => verify ok, write ok on the byte sink, bits written == count_bits().
macro_rules! check_component {
    ($c:expr) => {{
        let v = $c.verify();
        let vok = v.is_ok();
        std::mem::forget(v);
        assert!(vok);
        let mut sink = MemSink::<u8>::with_capacity(4096);
        let w = $c.write(&mut sink);
        let wok = w.is_ok();
        std::mem::forget(w);
        assert!(wok);
        assert!(sink.len() == $c.count_bits());
        std::mem::forget(sink);
    }};
}

/// Well-formedness of a residual (what `Residual::write`/`count_bits` and the format need).
pub(crate) fn valid_residual(r: &Residual) -> bool {
    let order = r.partition_order();
    if order > 15 {
        return false;
    }
    let nparts = 1usize << order;
    let bs = r.block_size();
    if r.rice_params().len() != nparts || r.quotients().len() != bs || r.remainders().len() != bs || bs > 32767 {
        return false;
    }
    if bs % nparts != 0 || r.warmup_length() > bs / nparts {
        return false;
    }
    let mut ok = true;
    let mut p = 0;
    while p < r.rice_params().len() {
        if r.rice_params()[p] > 14 {
            ok = false;
        }
        p += 1;
    }
    if !ok {
        return false;
    }
    let plen = bs / nparts;
    let mut sum: usize = 0;
    let mut t = 0;
    while t < bs {
        let rp = r.rice_params()[t / plen];
        if t < r.warmup_length() && (r.quotients()[t] != 0 || r.remainders()[t] != 0) {
            ok = false;
        }
        if r.remainders()[t] >= (1u32 << rp) {
            ok = false;
        }
        sum += r.quotients()[t] as usize;
        t += 1;
    }
    ok && sum == r.sum_quotients()
}

fn residual_new_case<const NP: usize, const NQ: usize, const NR: usize>() -> bool {
    let order: usize = kani::any();
    let block: usize = kani::any();
    let warmup: usize = kani::any();
    let ps: [u8; NP] = kani::any();
    let qs: [u32; NQ] = kani::any();
    let rs: [u32; NR] = kani::any();
    match Residual::new(order, block, warmup, &ps, &qs, &rs) {
        Ok(r) => {
            let v = r.verify();
            let vok = v.is_ok();
            std::mem::forget(v);
            assert!(vok);
            assert!(r.partition_order() == order && r.block_size() == block && r.warmup_length() == warmup);
            assert!(NQ == block && NR == block);
            assert!(valid_residual(&r));
            std::mem::forget(r);
            true
        }
        Err(e) => {
            std::mem::forget(e);
            false
        }
    }
}

//@ prop: C18
//@ tier: thorough
//@ drives: Residual::new, Residual::from_parts, Residual::verify, find_max, wrapping_sum
//@ bound: (thorough tier: never finished inside the 10-min quick cap - the 64-lane reductions of from_parts with free usize shape arguments) partition order / block size / warm-up length free over all of usize; slice lengths (Rice parameters, quotients, remainders) = (1,2,2); every parameter, quotient and remainder value
//@ asserts: never panics; Ok(r) implies r.verify() is Ok, the stored fields equal the arguments, and r is well-formed (partition order <= 15, 2^order parameters all <= 14, lengths == block size, block divisible, warm-up within the first partition and zero-padded, remainders below 2^parameter, cached quotient sum exact) - the predicate under which c08_residual_* prove bits written == count_bits()
//@ stubs: alloc::fmt::format -> empty string
#[kani::proof]
#[kani::unwind(70)]
#[kani::stub(alloc::fmt::format, fmt_stub)]
fn c18_residual_new_consistent() {
    let ok = residual_new_case::<1, 2, 2>();
    kani::cover!(ok);
    kani::cover!(!ok);
}

//@ prop: C18
//@ also: C08
//@ tier: thorough
//@ drives: Residual::new, Residual::from_parts, Residual::verify, find_max, wrapping_sum
//@ bound: (thorough tier, as c18_residual_new_consistent) partition order / block size / warm-up length free over all of usize; slice lengths (Rice parameters, quotients, remainders) = (2,4,4): the consistent shape with TWO partitions (warm-up lengths 0..=4 against a first partition of 2 samples); every parameter, quotient and remainder value
//@ asserts: as c18_residual_new_consistent (in particular: an accepted warm-up lies within the first partition, which is what count_bits() and the parser assume)
//@ stubs: alloc::fmt::format -> empty string
#[kani::proof]
#[kani::unwind(70)]
#[kani::stub(alloc::fmt::format, fmt_stub)]
fn c18_residual_new_two_partitions() {
    let ok = residual_new_case::<2, 4, 4>();
    kani::cover!(ok);
    kani::cover!(!ok);
}

//@ prop: C18
//@ also: C08
//@ tier: thorough
//@ drives: Residual::new, Residual::from_parts, Residual::verify (consistent two-partition shape with CONCRETE order and block size; measured: this does not finish inside the 10-min quick cap either - the cost is in Residual::new itself, not in the free shape arguments - so the accepting path of Residual::new is decided in the thorough tier only)
//@ bound: partition order 1, block size 4 (two partitions of 2 samples), warm-up length free in 0..=5, two arbitrary Rice parameters, every quotient and remainder value
//@ asserts: never panics; Ok(r) implies r.verify() is Ok and r is well-formed - in particular an accepted warm-up lies within the first partition (<= 2), which is what count_bits() and the parser assume
//@ stubs: alloc::fmt::format -> empty string
#[kani::proof]
#[kani::unwind(70)]
#[kani::stub(alloc::fmt::format, fmt_stub)]
fn c18_residual_new_two_partitions_concrete_shape() {
    let warmup: usize = kani::any();
    kani::assume(warmup <= 5);
    let ps: [u8; 2] = kani::any();
    let qs: [u32; 4] = kani::any();
    let rs: [u32; 4] = kani::any();
    let ok = match Residual::new(1, 4, warmup, &ps, &qs, &rs) {
        Ok(r) => {
            let v = r.verify();
            let vok = v.is_ok();
            std::mem::forget(v);
            assert!(vok);
            assert!(warmup <= 2);
            assert!(valid_residual(&r));
            std::mem::forget(r);
            true
        }
        Err(e) => {
            std::mem::forget(e);
            false
        }
    };
    kani::cover!(ok && warmup == 2);
    kani::cover!(!ok);
}

//@ prop: C18
//@ cover: none
//@ drives: Residual::new, Residual::from_parts, Residual::verify, find_max, wrapping_sum
//@ bound: partition order / block size / warm-up length free over all of usize; slice lengths (Rice parameters, quotients, remainders) = (2,2,4) or (1,4,2): quotient/remainder lengths disagree; every parameter, quotient and remainder value
//@ asserts: never panics; Ok(r) implies r.verify() is Ok, the stored fields equal the arguments, and r is well-formed (partition order <= 15, 2^order parameters all <= 14, lengths == block size, block divisible, warm-up within the first partition and zero-padded, remainders below 2^parameter, cached quotient sum exact) - the predicate under which c08_residual_* prove bits written == count_bits()
//@ stubs: alloc::fmt::format -> empty string
#[kani::proof]
#[kani::unwind(70)]
#[kani::stub(alloc::fmt::format, fmt_stub)]
fn c18_residual_new_inconsistent() {
    let sel: bool = kani::any();
    let ok = if sel { residual_new_case::<2, 2, 4>() } else { residual_new_case::<1, 4, 2>() };
    assert!(!ok);
}

//@ prop: C18
//@ drives: QuantizedParameters::new, QuantizedParameters::from_parts, QuantizedParameters::verify
//@ bound: coefficient slices of length 0..=3 (all values), order / precision free over usize, shift free over i8
//@ asserts: never panics; Ok(q) implies order == number of coefficients <= 32, 0 <= shift <= 15, 1 <= precision <= 15 and every coefficient fits the precision
//@ stubs: alloc::fmt::format -> empty string
#[kani::proof]
#[kani::unwind(36)]
#[kani::stub(alloc::fmt::format, fmt_stub)]
fn c18_quantized_parameters_new_total() {
    let coefs: [i16; 3] = kani::any();
    let n: usize = kani::any();
    kani::assume(n <= 3);
    let order: usize = kani::any();
    let shift: i8 = kani::any();
    let precision: usize = kani::any();
    match QuantizedParameters::new(&coefs[..n], order, shift, precision) {
        Ok(q) => {
            assert!(q.order() == n && order == n);
            assert!(q.shift() >= 0 && q.shift() <= 15);
            assert!(q.precision() >= 1 && q.precision() <= 15);
            let mut i = 0;
            while i < 3 {
                if i < n {
                    let lim = 1i32 << (q.precision() - 1);
                    assert!((coefs[i] as i32) < lim && (coefs[i] as i32) >= -lim);
                }
                i += 1;
            }
            kani::cover!(n == 3 && precision == 12);
            std::mem::forget(q);
        }
        Err(e) => {
            std::mem::forget(e);
        }
    }
}

//@ prop: C18
//@ drives: Constant::new, Constant::verify, Constant::write, Constant::count_bits
//@ bound: block size / bits-per-sample free over usize, dc offset free over i32
//@ asserts: never panics; Ok(c) implies it verifies and writes exactly count_bits() bits; Ok implies bits in 8..=25 and the value fits
//@ stubs: alloc::fmt::format -> empty string
#[kani::proof]
#[kani::unwind(12)]
#[kani::stub(alloc::fmt::format, fmt_stub)]
fn c18_constant_new_total() {
    let block: usize = kani::any();
    let dc: i32 = kani::any();
    let bps: usize = kani::any();
    match Constant::new(block, dc, bps) {
        Ok(c) => {
            assert!(bps >= 8 && bps <= 25 && c.bits_per_sample() == bps);
            assert!((dc as i64) < (1i64 << (bps - 1)) && (dc as i64) >= -(1i64 << (bps - 1)));
            assert!(c.block_size() == block && block <= 32767);
            check_component!(c);
            kani::cover!(dc < 0 && bps == 25);
        }
        Err(e) => {
            std::mem::forget(e);
        }
    }
}

fn verbatim_new_case<const N: usize>() -> bool {
    let samples: [i32; N] = kani::any();
    let bps: usize = kani::any();
    match Verbatim::new(&samples, bps) {
        Ok(c) => {
            assert!(bps >= 8 && bps <= 25 && c.bits_per_sample() == bps && c.samples().len() == N);
            let v = c.verify();
            assert!(v.is_ok());
            std::mem::forget(v);
            let mut i = 0;
            while i < N {
                assert!((samples[i] as i64) < (1i64 << (bps - 1)) && (samples[i] as i64) >= -(1i64 << (bps - 1)));
                assert!(c.samples()[i] == samples[i]);
                i += 1;
            }
            assert!(c.count_bits() == 8 + N * bps);
            std::mem::forget(c);
            true
        }
        Err(e) => {
            std::mem::forget(e);
            false
        }
    }
}
//@ prop: C18
//@ drives: Verbatim::new, Verbatim::verify, Verbatim::write, Verbatim::count_bits
//@ bound: 1 sample (all i32 values), bits-per-sample free over usize
//@ asserts: never panics; Ok(c) implies it verifies, width in 8..=25, every sample fits the width and is stored unchanged, count_bits() == 8 + n*bps (c08_verbatim_* prove that this many bits are written)
//@ stubs: alloc::fmt::format -> empty string
#[kani::proof]
#[kani::unwind(12)]
#[kani::stub(alloc::fmt::format, fmt_stub)]
fn c18_verbatim_new_n1() {
    let ok = verbatim_new_case::<1>();
    kani::cover!(ok);
}
//@ prop: C18
//@ tier: thorough
//@ drives: Verbatim::new, Verbatim::verify, Verbatim::write, Verbatim::count_bits
//@ bound: 3 samples (all i32 values), bits-per-sample free over usize
//@ asserts: never panics; Ok(c) implies it verifies, width in 8..=25, every sample fits the width and is stored unchanged, count_bits() == 8 + n*bps (c08_verbatim_* prove that this many bits are written)
//@ stubs: alloc::fmt::format -> empty string
#[kani::proof]
#[kani::unwind(12)]
#[kani::stub(alloc::fmt::format, fmt_stub)]
fn c18_verbatim_new_n3() {
    let ok = verbatim_new_case::<3>();
    kani::cover!(ok);
}

//@ prop: C18
//@ also: C17
//@ drives: StreamInfo::new, StreamInfo::verify, Stream::new
//@ bound: sample rate / channels / bits-per-sample free over all of usize (so 2^8+k, 2^16+k, 2^32+k, usize::MAX are included)
//@ asserts: never panics; Ok(info) implies the stored values equal the arguments (no truncation), channels 1..=8, rate <= 96000, width within 8..=25
//@ stubs: alloc::fmt::format -> empty string
#[kani::proof]
#[kani::unwind(12)]
#[kani::stub(alloc::fmt::format, fmt_stub)]
fn c17_stream_info_new_no_truncation() {
    let rate: usize = kani::any();
    let ch: usize = kani::any();
    let bps: usize = kani::any();
    match StreamInfo::new(rate, ch, bps) {
        Ok(info) => {
            assert!(info.sample_rate() == rate && info.channels() == ch && info.bits_per_sample() == bps);
            assert!(ch >= 1 && ch <= 8);
            assert!(rate <= 96_000);
            assert!(bps >= 8 && bps <= 25);
            kani::cover!(ch == 8 && bps == 24);
        }
        Err(e) => {
            std::mem::forget(e);
        }
    }
}

//@ prop: C17
//@ also: C18
//@ drives: FrameHeader::new, BlockSizeSpec::from_size, SampleSizeSpec::from_bits, SampleRateSpec::from_freq, ChannelAssignment::verify
//@ bound: block size / bits-per-sample / sample rate free over all of usize, every channel assignment incl. Independent(0..=255), both offset kinds with free numbers
//@ asserts: never panics; Ok(h) implies block size 1..=32767 equal to the argument, width in {8,12,16,20,24} equal to the argument, channel count 1..=8, and the header verifies
//@ stubs: alloc::fmt::format -> empty string
#[kani::proof]
#[kani::unwind(12)]
#[kani::stub(alloc::fmt::format, fmt_stub)]
fn c17_frame_header_new() {
    let bs: usize = kani::any();
    let bps: usize = kani::any();
    let rate: usize = kani::any();
    let k: u8 = kani::any();
    let n: u8 = kani::any();
    let ca = match k % 4 {
        0 => ChannelAssignment::Independent(n),
        1 => ChannelAssignment::LeftSide,
        2 => ChannelAssignment::RightSide,
        _ => ChannelAssignment::MidSide,
    };
    let off = if kani::any() { FrameOffset::Frame(kani::any()) } else { FrameOffset::StartSample(kani::any()) };
    match FrameHeader::new(bs, ca, bps, rate, off) {
        Ok(h) => {
            assert!(bs >= 1 && bs <= 32767 && h.block_size() == bs);
            assert!(bps == 8 || bps == 12 || bps == 16 || bps == 20 || bps == 24);
            assert!(h.bits_per_sample() == Some(bps));
            assert!(k % 4 != 0 || (n >= 1 && n <= 8));
            assert!(rate <= u32::MAX as usize);
            let v = h.verify();
            assert!(v.is_ok());
            std::mem::forget(v);
            kani::cover!(bs == 4096 && bps == 24);
            std::mem::forget(h);
        }
        Err(e) => {
            std::mem::forget(e);
        }
    }
}

//@ prop: C18
//@ drives: StreamInfo::set_block_sizes, StreamInfo::set_frame_sizes
//@ bound: both arguments free over all of usize, from an arbitrary StreamInfo
//@ asserts: never panics; Ok implies min <= max, both within range and stored without truncation
//@ stubs: alloc::fmt::format -> empty string
#[kani::proof]
#[kani::unwind(12)]
#[kani::stub(alloc::fmt::format, fmt_stub)]
fn c18_stream_info_setters_total() {
    let mut info = any_stream_info_fields();
    let a: usize = kani::any();
    let b: usize = kani::any();
    if kani::any() {
        let r = info.set_block_sizes(a, b);
        if r.is_ok() {
            assert!(a <= b && b <= 32767 && info.min_block_size() == a && info.max_block_size() == b);
            kani::cover!(a == 16 && b == 4096);
        }
        std::mem::forget(r);
    } else {
        let r = info.set_frame_sizes(a, b);
        if r.is_ok() {
            assert!(a <= b && info.min_frame_size() == a && info.max_frame_size() == b);
        }
        std::mem::forget(r);
    }
}

//@ prop: C18
//@ drives: MetadataBlockData::new_unknown, MetadataBlock::write, MetadataBlock::count_bits
//@ bound: tag free over u8, 0..=3 data bytes (all values), last-block flag free
//@ asserts: never panics; Ok implies tag <= 126; the block writes exactly count_bits() bits: 1-bit flag, 7-bit type, 24-bit length, payload
//@ stubs: alloc::fmt::format -> empty string
#[kani::proof]
#[kani::unwind(12)]
#[kani::stub(alloc::fmt::format, fmt_stub)]
fn c18_metadata_unknown_total() {
    // the payload length is concrete on each path (a symbolic-length memcpy made CBMC report a
    // spurious counterexample that did not replay natively)
    fn body<const N: usize>() -> bool {
        let tag: u8 = kani::any();
        let data: [u8; N] = kani::any();
        let is_last: bool = kani::any();
        match MetadataBlockData::new_unknown(tag, &data) {
            Ok(d) => {
                assert!(tag <= 126);
                let b = MetadataBlock::from_parts(is_last, d);
                let mut sink = MemSink::<u8>::with_capacity(256);
                let w = b.write(&mut sink);
                assert!(w.is_ok());
                std::mem::forget(w);
                assert!(sink.len() == b.count_bits() && sink.len() == 32 + 8 * N);
                let s = sink.as_slice();
                assert!(s[0] == tag | if is_last { 0x80 } else { 0 });
                assert!(s[1] == 0 && s[2] == 0 && s[3] as usize == N);
                let mut i = 0;
                while i < N {
                    assert!(s[4 + i] == data[i]);
                    i += 1;
                }
                std::mem::forget(sink);
                std::mem::forget(b);
                is_last
            }
            Err(e) => {
                assert!(tag > 126);
                std::mem::forget(e);
                false
            }
        }
    }
    let sel: u8 = kani::any();
    let c = if sel == 0 { body::<0>() } else if sel == 1 { body::<1>() } else { body::<3>() };
    kani::cover!(c && sel == 2);
}

//@ prop: C18
//@ expect: fail
//@ drives: (reachability witness) Constant::new Ok path
//@ bound: as c18_constant_new_total
#[kani::proof]
#[kani::unwind(12)]
#[kani::stub(alloc::fmt::format, fmt_stub)]
fn c18_vacuity_twin() {
    let r = Constant::new(kani::any(), kani::any(), kani::any());
    kani::assume(r.is_ok());
    std::mem::forget(r);
    assert!(false);
}

// ---------------------------------------------------------------- helpers for other harness modules
/// A residual whose cached sums make `count_bits()` an arbitrary value (10 + q); it is
/// never written, only measured (used by the C09 selection-logic harnesses).
pub(crate) fn residual_with_bits(q: usize) -> Residual {
    Residual {
        partition_order: 0,
        block_size: 0,
        warmup_length: 0,
        rice_params: vec![0u8],
        quotients: Vec::new(),
        remainders: Vec::new(),
        sum_quotients: q,
        sum_rice_params: 0,
    }
}
/// A fixed-predictor subframe of order 0 whose `count_bits()` is 18 + q.
pub(crate) fn subframe_with_bits(q: usize, bits_per_sample: u8) -> SubFrame {
    FixedLpc::from_parts(heapless::Vec::new(), residual_with_bits(q), bits_per_sample).into()
}

// ======================================================================== C04 accumulation lemma
//@ prop: C04
//@ drives: StreamInfo::update_frame_info, Frame::block_size, Frame::count_bits (constant subframes), FrameHeader::count_bits
//@ bound: arbitrary accumulated StreamInfo state (all fields), one frame with any block-size code / sample-rate code / 1..=2 channels of constant subframes, bits-per-sample 8..=24, frame number < 2^31
//@ asserts: one accumulation step: max fields = max(old, frame), frame-size fields use the frame's byte length, total samples grows by the block size; the minimum block size never drops below min(old, frame)
//@ stubs: alloc::fmt::format -> empty string
#[kani::proof]
#[kani::unwind(12)]
#[kani::stub(alloc::fmt::format, fmt_stub)]
fn c04_update_frame_info_step() {
    let mut info = any_stream_info_fields();
    kani::assume(info.total_samples < (1u64 << 35));
    let old = info.clone();
    let mut h = any_frame_header();
    let two: bool = kani::any();
    h.channel_assignment = ChannelAssignment::Independent(if two { 2 } else { 1 });
    let bps: u8 = kani::any();
    kani::assume(bps >= 8 && bps <= 24);
    let bs = h.block_size();
    let mut subs = Vec::with_capacity(2);
    subs.push(SubFrame::Constant(Constant::from_parts(bs, kani::any::<i8>() as i32, bps)));
    if two {
        subs.push(SubFrame::Constant(Constant::from_parts(bs, kani::any::<i8>() as i32, bps)));
    }
    let frame = Frame::from_parts(h, subs);
    let bytes = frame.count_bits() / 8;
    info.update_frame_info(&frame);
    assert!(info.max_block_size() == std::cmp::max(old.max_block_size(), bs));
    assert!(info.min_block_size() == std::cmp::min(old.min_block_size(), bs));
    assert!(info.max_frame_size() == std::cmp::max(old.max_frame_size(), bytes));
    assert!(info.min_frame_size() == std::cmp::min(old.min_frame_size(), bytes));
    assert!(info.total_samples() == old.total_samples() + bs);
    assert!(info.sample_rate() == old.sample_rate() && info.channels() == old.channels() && info.bits_per_sample() == old.bits_per_sample());
    kani::cover!(bs == 4608 && two);
    std::mem::forget(frame);
}

// ======================================================================== generators for C08/C01/C12
pub(crate) fn any_bps() -> u8 {
    let b: u8 = kani::any();
    kani::assume(b >= 8 && b <= 25 && (b % 4 == 0 || b % 4 == 1));
    b
}
pub(crate) fn any_sample(bps: u8) -> i32 {
    let v: i32 = kani::any();
    kani::assume((v as i64) < (1i64 << (bps - 1)) && (v as i64) >= -(1i64 << (bps - 1)));
    v
}
pub(crate) fn any_constant(block: usize) -> Constant {
    let bps = any_bps();
    Constant::from_parts(block, any_sample(bps), bps)
}
pub(crate) fn any_verbatim<const N: usize>() -> Verbatim {
    let bps = any_bps();
    let mut s = [0i32; N];
    let mut i = 0;
    while i < N {
        s[i] = any_sample(bps);
        i += 1;
    }
    Verbatim::from_samples(&s, bps)
}
/// Arbitrary well-formed residual with concrete shape: block B, 2^PO = NP partitions,
/// warm-up `warmup` (<= B/NP), Rice parameters <= 14, quotients <= max_q.
pub(crate) fn any_residual<const B: usize, const PO: u8, const NP: usize>(warmup: usize, max_q: u32) -> Residual {
    let ps: [u8; NP] = kani::any();
    let mut qs: [u32; B] = kani::any();
    let mut rs: [u32; B] = kani::any();
    let mut p = 0;
    while p < NP {
        kani::assume(ps[p] <= 14);
        p += 1;
    }
    let plen = B / NP;
    let mut t = 0;
    while t < B {
        if t < warmup {
            qs[t] = 0;
            rs[t] = 0;
        } else {
            kani::assume(qs[t] <= max_q);
            kani::assume(rs[t] < (1u32 << ps[t / plen]));
        }
        t += 1;
    }
    let mut psv = Vec::with_capacity(NP);
    let mut p = 0;
    while p < NP {
        psv.push(ps[p]);
        p += 1;
    }
    let mut qv = Vec::with_capacity(B);
    let mut rv = Vec::with_capacity(B);
    let mut t = 0;
    while t < B {
        qv.push(qs[t]);
        rv.push(rs[t]);
        t += 1;
    }
    // built field by field: `Residual::from_parts` runs 64-lane reductions that would force an
    // unwind bound of 66 on every loop of the harness; its cached sums are checked separately
    // (c08_residual_cached_sums_exact)
    let mut sum_q: usize = 0;
    let mut t = 0;
    while t < B {
        sum_q += qs[t] as usize;
        t += 1;
    }
    let mut sum_p: usize = 0;
    let mut p = 0;
    while p < NP {
        sum_p += ps[p] as usize;
        p += 1;
    }
    Residual {
        partition_order: PO,
        block_size: B,
        warmup_length: warmup,
        rice_params: psv,
        quotients: qv,
        remainders: rv,
        sum_quotients: sum_q,
        sum_rice_params: sum_p,
    }
}
pub(crate) fn fixed_from<const K: usize>(warm: [i32; K], residual: Residual, bps: u8) -> FixedLpc {
    let mut w: heapless::Vec<i32, 4> = heapless::Vec::new();
    let mut i = 0;
    while i < K {
        let _ = w.push(warm[i]);
        i += 1;
    }
    FixedLpc::from_parts(w, residual, bps)
}
pub(crate) fn lpc_from<const K: usize>(warm: [i32; K], coefs: [i16; K], shift: i8, precision: usize, residual: Residual, bps: u8) -> Lpc {
    let mut w: heapless::Vec<i32, MAX_LPC_ORDER> = heapless::Vec::new();
    let mut i = 0;
    while i < K {
        let _ = w.push(warm[i]);
        i += 1;
    }
    let qp = QuantizedParameters::from_parts(&coefs, K, shift, precision);
    Lpc::from_parts(w, qp, residual, bps)
}
pub(crate) fn stream_info_of(rate: u32, channels: u8, bps: u8) -> StreamInfo {
    StreamInfo {
        min_block_size: u16::MAX,
        max_block_size: 0,
        min_frame_size: u32::MAX,
        max_frame_size: 0,
        sample_rate: rate,
        channels,
        bits_per_sample: bps,
        total_samples: 0,
        md5: [0; 16],
    }
}
pub(crate) fn frame_of(h: FrameHeader, subs: Vec<SubFrame>) -> Frame {
    Frame::from_parts(h, subs)
}
pub(crate) fn stream_of(info: StreamInfo) -> Stream {
    Stream::with_stream_info(info)
}
pub(crate) fn any_verbatim_of<const N: usize>(bps: u8) -> Verbatim {
    let mut s = [0i32; N];
    let mut i = 0;
    while i < N {
        s[i] = any_sample(bps);
        i += 1;
    }
    Verbatim::from_samples(&s, bps)
}

/// Residual from concrete arrays (no 64-lane reductions, see any_residual).
pub(crate) fn residual_from_arrays<const B: usize, const PO: u8, const NP: usize>(ps: [u8; NP], qs: [u32; B], rs: [u32; B], warmup: usize) -> Residual {
    let mut psv = Vec::with_capacity(NP);
    let mut sum_p = 0usize;
    let mut p = 0;
    while p < NP {
        psv.push(ps[p]);
        sum_p += ps[p] as usize;
        p += 1;
    }
    let mut qv = Vec::with_capacity(B);
    let mut rv = Vec::with_capacity(B);
    let mut sum_q = 0usize;
    let mut t = 0;
    while t < B {
        qv.push(qs[t]);
        rv.push(rs[t]);
        sum_q += qs[t] as usize;
        t += 1;
    }
    Residual {
        partition_order: PO,
        block_size: B,
        warmup_length: warmup,
        rice_params: psv,
        quotients: qv,
        remainders: rv,
        sum_quotients: sum_q,
        sum_rice_params: sum_p,
    }
}
/// Concrete shape (parameters, quotients, warm-up), symbolic remainders.
pub(crate) fn residual_sym_remainders<const B: usize, const PO: u8, const NP: usize>(ps: [u8; NP], qs: [u32; B], warmup: usize) -> Residual {
    let mut rs: [u32; B] = kani::any();
    let mut qs = qs;
    let plen = B / NP;
    let mut t = 0;
    while t < B {
        if t < warmup {
            rs[t] = 0;
            qs[t] = 0;
        } else {
            kani::assume(rs[t] < (1u32 << ps[t / plen]));
        }
        t += 1;
    }
    residual_from_arrays::<B, PO, NP>(ps, qs, rs, warmup)
}
