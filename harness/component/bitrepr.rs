//@file-needs: component/datatype.rs, bitsink.rs
// Harnesses for C08 (count_bits = bits written), C02 (well-formed headers), C12 (failing
// sink), driven through `BitRepr::write`.  Child module of `component::bitrepr`.

use super::*;
use crate::bitsink::BitSink;
use crate::component::datatype::verif_kani as gen;
use crate::bitsink::verif_kani::RecSink;
use crate::component::datatype::{FrameHeader, FrameOffset};
use crate::component::datatype::{BlockSizeSpec, SampleRateSpec, SampleSizeSpec};
use crate::verif_ref::bits as rf;

pub(crate) fn fmt_stub(_args: std::fmt::Arguments<'_>) -> String {
    String::new()
}

fn expected_block_size(s: BlockSizeSpec) -> u32 {
    match s {
        BlockSizeSpec::Reserved => 0,
        BlockSizeSpec::S192 => 192,
        BlockSizeSpec::Pow2Mul576(x) => 576u32 << x,
        BlockSizeSpec::ExtraByte(x) => x as u32 + 1,
        BlockSizeSpec::ExtraTwoBytes(x) => x as u32 + 1,
        BlockSizeSpec::Pow2Mul256(x) => 256u32 << x,
    }
}
fn expected_rate(s: SampleRateSpec) -> Option<u32> {
    match s {
        SampleRateSpec::Unspecified => None,
        SampleRateSpec::R88_2kHz => Some(88_200),
        SampleRateSpec::R176_4kHz => Some(176_400),
        SampleRateSpec::R192kHz => Some(192_000),
        SampleRateSpec::R8kHz => Some(8_000),
        SampleRateSpec::R16kHz => Some(16_000),
        SampleRateSpec::R22_05kHz => Some(22_050),
        SampleRateSpec::R24kHz => Some(24_000),
        SampleRateSpec::R32kHz => Some(32_000),
        SampleRateSpec::R44_1kHz => Some(44_100),
        SampleRateSpec::R48kHz => Some(48_000),
        SampleRateSpec::R96kHz => Some(96_000),
        SampleRateSpec::KHz(x) => Some(x as u32 * 1000),
        SampleRateSpec::Hz(x) => Some(x as u32),
        SampleRateSpec::DaHz(x) => Some(x as u32 * 10),
    }
}
fn expected_bits(s: SampleSizeSpec) -> Option<u8> {
    match s {
        SampleSizeSpec::Unspecified | SampleSizeSpec::Reserved => None,
        SampleSizeSpec::B8 => Some(8),
        SampleSizeSpec::B12 => Some(12),
        SampleSizeSpec::B16 => Some(16),
        SampleSizeSpec::B20 => Some(20),
        SampleSizeSpec::B24 => Some(24),
        SampleSizeSpec::B32 => Some(32),
    }
}
fn expected_ch_code(c: &ChannelAssignment) -> u8 {
    match *c {
        ChannelAssignment::Independent(n) => n - 1,
        ChannelAssignment::LeftSide => 8,
        ChannelAssignment::RightSide => 9,
        ChannelAssignment::MidSide => 10,
    }
}


/// Stubs for the table-driven CRC kernels of the `crc` crate (bitwise continuation from `crc`).
/// The contract "table-driven kernel == bitwise reference" is checked by c02_crc8_contract /
/// c02_crc16_contract on the real kernels.
pub(crate) fn crc8_update_stub<const L: usize>(crc: u8, _alg: &crc::Algorithm<u8>, _table: &[[u8; 256]; L], bytes: &[u8]) -> u8 {
    let mut c = crc;
    let mut i = 0;
    while i < bytes.len() {
        c ^= bytes[i];
        let mut k = 0;
        while k < 8 {
            c = if c & 0x80 != 0 { (c << 1) ^ 0x07 } else { c << 1 };
            k += 1;
        }
        i += 1;
    }
    c
}

// ======================================================================== header lemmas (C02 + C08)
// `FrameHeader::write` as a whole is out of CBMC's reach with symbolic fields (measured: > 15 min
// even with one free field; 46 s for a fully concrete header).  The header is therefore decided
// as: H1 number coding, H2 block-size codes, H3 sample-rate codes, H4 sample-size codes,
// H5 channel codes, H6 the bit-count formula - each over its WHOLE value space in one query -
// plus H7: the real `FrameHeader::write` on concrete-shaped headers decoded by the RFC reference
// decoder (glue: field order, sync code, reserved bits, CRC-8 placement), H8: the CRC kernels.

fn ref_utf8_len(v: u64) -> usize {
    if v < (1 << 7) { 1 } else if v < (1 << 11) { 2 } else if v < (1 << 16) { 3 } else if v < (1 << 21) { 4 }
    else if v < (1 << 26) { 5 } else if v < (1 << 31) { 6 } else { 7 }
}

//@ prop: C02
//@ also: C08 C15 C04 C18
//@ drives: bitrepr::encode_to_utf8like, bitrepr::utf8like_bytesize
//@ bound: every u64 value (complete: values < 2^36 must encode, larger ones must be rejected)
//@ asserts: the code decodes back to the value with the RFC 9639 reference decoder, is in shortest form (canonical), has exactly ref_utf8_len(v) = utf8like_bytesize(v) bytes; values >= 2^36 give an error
//@ stubs: alloc::fmt::format -> empty string
#[kani::proof]
#[kani::unwind(10)]
#[kani::stub(alloc::fmt::format, fmt_stub)]
fn c02_h1_utf8_number_code() {
    let v: u64 = kani::any();
    match encode_to_utf8like(v) {
        Ok(bytes) => {
            assert!(v < (1u64 << 36));
            let n = bytes.len();
            assert!(n == ref_utf8_len(v));
            assert!(n == utf8like_bytesize(v as usize));
            let mut buf = [0u8; 7];
            let mut i = 0;
            while i < 7 {
                if i < n { buf[i] = bytes[i]; }
                i += 1;
            }
            match rf::utf8_decode(&buf[..n]) {
                Some((d, used)) => assert!(d == v && used == n),
                None => assert!(false),
            }
            kani::cover!(n == 7);
            kani::cover!(n == 1);
        }
        Err(e) => {
            std::mem::forget(e);
            assert!(v >= (1u64 << 36));
        }
    }
}

/// RFC 9639 table 14: block size from the 4-bit code and the extra bytes.
fn ref_block_size(code: u8, extra: u32) -> Option<u32> {
    match code {
        0 => None,
        1 => Some(192),
        2..=5 => Some(576u32 << (code - 2)),
        6 => Some(extra + 1),
        7 => Some(extra + 1),
        8..=15 => Some(256u32 << (code - 8)),
        _ => None,
    }
}
/// RFC 9639 table 15: sample rate from the 4-bit code and the extra bytes.
fn ref_sample_rate(code: u8, extra: u32) -> Option<Option<u32>> {
    Some(match code {
        0 => None,
        1 => Some(88_200),
        2 => Some(176_400),
        3 => Some(192_000),
        4 => Some(8_000),
        5 => Some(16_000),
        6 => Some(22_050),
        7 => Some(24_000),
        8 => Some(32_000),
        9 => Some(44_100),
        10 => Some(48_000),
        11 => Some(96_000),
        12 => Some(extra * 1000),
        13 => Some(extra),
        14 => Some(extra * 10),
        _ => return None,
    })
}

//@ prop: C02
//@ also: C08 C15
//@ drives: BlockSizeSpec::from_size, BlockSizeSpec::tag, BlockSizeSpec::write_extra_bits, BlockSizeSpec::count_extra_bits, BlockSizeSpec::block_size
//@ bound: every block size 1..=65535 (the whole u16 domain except 0) in one query; extra bits written to a recording user sink
//@ asserts: the 4-bit code is never the reserved 0000; code + extra bytes decode to the size by RFC 9639 table 14; the number of extra bits written equals count_extra_bits() and is 0/8/16 as the code demands; block_size() returns the size
#[kani::proof]
#[kani::unwind(10)]
fn c02_h2_block_size_codes() {
    let size: u16 = kani::any();
    kani::assume(size >= 1);
    let spec = BlockSizeSpec::from_size(size);
    let tag = spec.tag();
    assert!(tag >= 1 && tag <= 15);
    let mut sink = RecSink::new(usize::MAX);
    assert!(spec.write_extra_bits(&mut sink).is_ok());
    assert!(sink.len == spec.count_extra_bits());
    let want_extra = if tag == 6 { 8 } else if tag == 7 { 16 } else { 0 };
    assert!(sink.len == want_extra);
    let extra: u32 = if sink.len == 0 { 0 } else { (sink.words[0] >> (64 - sink.len)) as u32 };
    assert!(ref_block_size(tag, extra) == Some(size as u32));
    assert!(spec.block_size() == Some(size as usize));
    kani::cover!(tag == 7 && size == 4097);
    kani::cover!(tag == 12);
}

//@ prop: C02
//@ also: C08 C15
//@ drives: SampleRateSpec::from_freq, SampleRateSpec::tag, SampleRateSpec::write_extra_bits, SampleRateSpec::count_extra_bits
//@ bound: every sample rate 0..=1048575 (20 bits: everything STREAMINFO can hold, incl. all of 1..=96000) in one query
//@ asserts: when a code is produced it is never the reserved 1111 and code + extra bytes decode to exactly the rate by RFC 9639 table 15; extra bits written == count_extra_bits() == 0/8/16 as the code demands; rates without a code yield None (the encoder then writes 0000 = take it from STREAMINFO)
#[kani::proof]
#[kani::unwind(10)]
fn c02_h3_sample_rate_codes() {
    let freq: u32 = kani::any();
    kani::assume(freq < (1 << 20));
    match SampleRateSpec::from_freq(freq) {
        Some(spec) => {
            let tag = spec.tag();
            assert!(tag <= 14);
            let mut sink = RecSink::new(usize::MAX);
            assert!(spec.write_extra_bits(&mut sink).is_ok());
            assert!(sink.len == spec.count_extra_bits());
            let want_extra = if tag == 12 { 8 } else if tag == 13 || tag == 14 { 16 } else { 0 };
            assert!(sink.len == want_extra);
            let extra: u32 = if sink.len == 0 { 0 } else { (sink.words[0] >> (64 - sink.len)) as u32 };
            assert!(tag != 0);
            assert!(ref_sample_rate(tag, extra) == Some(Some(freq)));
            kani::cover!(tag == 14 && freq == 95_800);
            kani::cover!(tag == 13 && freq == 16_001);
            kani::cover!(tag == 9);
        }
        None => {
            // not expressible in a frame header: not a multiple of 10 and above 65535
            assert!(freq % 10 != 0 && freq > 65535 || freq > 655_350);
        }
    }
}

//@ prop: C02
//@ also: C15
//@ drives: SampleSizeSpec::from_bits, SampleSizeSpec::into_tag, SampleSizeSpec::from_tag, SampleSizeSpec::into_bits, ChannelAssignment::write, ChannelAssignment::from_tag, ChannelAssignment::count_bits
//@ bound: every u8 bits-per-sample value; every channel assignment (Independent(1..=8), left/side, side/right, mid/side)
//@ asserts: sample-size codes follow RFC 9639 table 17 and never use the reserved 011; the channel code written is 4 bits, n-1 for n independent channels, 8/9/10 for the stereo modes, and from_tag inverts it
//@ stubs: alloc::fmt::format -> empty string
#[kani::proof]
#[kani::unwind(10)]
#[kani::stub(alloc::fmt::format, fmt_stub)]
fn c02_h45_sample_size_and_channel_codes() {
    let bits: u8 = kani::any();
    match SampleSizeSpec::from_bits(bits) {
        Some(s) => {
            let tag = s.into_tag();
            let want = match bits { 8 => 1, 12 => 2, 16 => 4, 20 => 5, 24 => 6, 32 => 7, _ => 99 };
            assert!(tag == want && tag != 3);
            assert!(s.into_bits() == Some(bits));
            assert!(SampleSizeSpec::from_tag(tag) == Some(s));
        }
        None => assert!(bits != 8 && bits != 12 && bits != 16 && bits != 20 && bits != 24 && bits != 32),
    }
    let ca = gen::any_channel_assignment();
    let mut sink = RecSink::new(usize::MAX);
    let r = ca.write(&mut sink);
    let ok = r.is_ok();
    std::mem::forget(r);
    assert!(ok && sink.len == 4 && ca.count_bits() == 4);
    let code = (sink.words[0] >> 60) as u8;
    assert!(code == expected_ch_code(&ca) && code <= 10);
    assert!(ChannelAssignment::from_tag(code) == Some(ca.clone()));
    kani::cover!(code == 10);
    kani::cover!(code == 7 && bits == 24);
}

//@ prop: C08
//@ also: C04 C18
//@ drives: FrameHeader::count_bits, utf8like_bytesize, BlockSizeSpec::count_extra_bits, SampleRateSpec::count_extra_bits
//@ bound: every header (both blocking strategies, every code class and payload, frame numbers < 2^31, sample numbers < 2^36)
//@ asserts: count_bits() == 16 (sync, reserved, strategy) + 16 (codes) + 8*len(number) + extra block-size bits + extra sample-rate bits + 8 (CRC) with len() the RFC number length - i.e. the length of what H1-H5 and H7 show is written
#[kani::proof]
#[kani::unwind(10)]
fn c08_h6_header_count_bits_formula() {
    let h = gen::any_frame_header();
    let num = if h.is_variable_blocking() { h.start_sample_number() } else { h.frame_number() as u64 };
    let bs_extra = match h.block_size_spec().tag() { 6 => 8, 7 => 16, _ => 0 };
    let sr_extra = match h.sample_rate_spec().tag() { 12 => 8, 13 | 14 => 16, _ => 0 };
    assert!(h.count_bits() == 40 + 8 * ref_utf8_len(num) + bs_extra + sr_extra);
    assert!(h.count_bits() % 8 == 0);
    kani::cover!(h.count_bits() == 40 + 56 + 16 + 16);
    kani::cover!(h.count_bits() == 48);
    std::mem::forget(h);
}

/// One concrete-shaped header through the real writer, decoded by the reference decoder.
fn header_glue(bs: BlockSizeSpec, ca: ChannelAssignment, ss: SampleSizeSpec, sr: SampleRateSpec, off: FrameOffset) {
    let mut h = FrameHeader::from_specs(bs, ca, ss, sr);
    h.set_frame_offset(off);
    let mut sink = MemSink::<u8>::with_capacity(160);
    let r = h.write(&mut sink);
    let ok = r.is_ok();
    std::mem::forget(r);
    assert!(ok);
    assert!(sink.len() == h.count_bits());
    let n = sink.len() / 8;
    let mut bytes = [0u8; 16];
    sink.write_to_byte_slice(&mut bytes[..n]);
    match rf::decode_header(&bytes[..n]) {
        Ok(d) => {
            assert!(d.header_bytes == n);
            assert!(d.variable == h.is_variable_blocking());
            assert!(d.block_size == expected_block_size(h.block_size_spec()));
            assert!(d.sample_rate == expected_rate(*h.sample_rate_spec()));
            assert!(d.bits == expected_bits(*h.sample_size_spec()));
            assert!(d.channels_code == expected_ch_code(h.channel_assignment()));
            let num = if h.is_variable_blocking() { h.start_sample_number() } else { h.frame_number() as u64 };
            assert!(d.number == num);
        }
        Err(_) => assert!(false),
    }
    std::mem::forget(sink);
    std::mem::forget(h);
}

//@ prop: C02
//@ also: C08
//@ rotate: hdrglue
//@ drives: FrameHeader::write (real, incl. HEADER_CRC table-driven CRC-8, HEADER_CRC_BUFFER), FrameHeader::count_bits, MemSink<u8>
//@ bound: concrete headers: {4096 samples/44.1 kHz/16 bit/stereo/frame 0}, {4097 samples via 16-bit extra, 16001 Hz via Hz code, 24 bit, mid-side, frame 2^31-1}, {17 samples via 8-bit extra, 95.8 kHz via daHz code, 8 bit, mono, frame 128}
//@ asserts: bits written == count_bits(); the RFC 9639 reference header decoder accepts the bytes (sync code, zero reserved bits, no reserved code, shortest-form number, CRC-8 recomputed bitwise) and returns the same fields
//@ stubs: alloc::fmt::format -> empty string
#[kani::proof]
#[kani::unwind(18)]
#[kani::stub(alloc::fmt::format, fmt_stub)]
fn c02_h7_header_write_glue_a() {
    header_glue(BlockSizeSpec::from_size(4096), ChannelAssignment::Independent(2), SampleSizeSpec::B16, SampleRateSpec::R44_1kHz, FrameOffset::Frame(0));
    header_glue(BlockSizeSpec::from_size(4097), ChannelAssignment::MidSide, SampleSizeSpec::B24, SampleRateSpec::Hz(16001), FrameOffset::Frame(0x7FFF_FFFF));
    header_glue(BlockSizeSpec::from_size(17), ChannelAssignment::Independent(1), SampleSizeSpec::B8, SampleRateSpec::DaHz(9580), FrameOffset::Frame(128));
    kani::cover!(true);
}

//@ prop: C02
//@ also: C08
//@ rotate: hdrglue
//@ drives: FrameHeader::write (real), FrameHeader::count_bits
//@ bound: concrete headers: {192 samples, 8 channels, 12 bit, 96 kHz, frame 2048}, {1152 samples, left-side, 20 bit, 7 kHz via kHz code, start sample 2^36-1 (variable blocking)}, {32767 samples, right-side, unspecified width and rate, frame 65536}
//@ asserts: as c02_h7_header_write_glue_a
//@ stubs: alloc::fmt::format -> empty string
#[kani::proof]
#[kani::unwind(18)]
#[kani::stub(alloc::fmt::format, fmt_stub)]
fn c02_h7_header_write_glue_b() {
    header_glue(BlockSizeSpec::from_size(192), ChannelAssignment::Independent(8), SampleSizeSpec::B12, SampleRateSpec::R96kHz, FrameOffset::Frame(2048));
    header_glue(BlockSizeSpec::from_size(1152), ChannelAssignment::LeftSide, SampleSizeSpec::B20, SampleRateSpec::KHz(7), FrameOffset::StartSample((1u64 << 36) - 1));
    header_glue(BlockSizeSpec::from_size(32767), ChannelAssignment::RightSide, SampleSizeSpec::Unspecified, SampleRateSpec::Unspecified, FrameOffset::Frame(65536));
    kani::cover!(true);
}

//@ prop: C08
//@ also: C02 C15
//@ drives: FrameHeader::write (real), FrameHeader::count_bits, BlockSizeSpec::write_extra_bits, SampleRateSpec::write_extra_bits on NON-canonical code choices (valid headers only the parser or a deserialiser produces)
//@ bound: concrete headers whose codes are valid but not the shortest: {192 samples in the 8-bit field, 44.1 kHz in the Hz field, 16 bit, stereo, frame 1}, {4096 samples in the 16-bit field, 48 kHz in the kHz field, 24 bit, mono, frame 70000}, {256 samples in the 8-bit field, 44.1 kHz in the daHz field, 8 bit, left-side, start sample 5 (variable blocking)}
//@ asserts: bits written == count_bits() for the header as stored (the writer keeps the stored code), and the RFC 9639 reference header decoder returns the stored fields
//@ stubs: alloc::fmt::format -> empty string
#[kani::proof]
#[kani::unwind(18)]
#[kani::stub(alloc::fmt::format, fmt_stub)]
fn c08_h7_header_write_noncanonical_codes() {
    header_glue(BlockSizeSpec::ExtraByte(191), ChannelAssignment::Independent(2), SampleSizeSpec::B16, SampleRateSpec::Hz(44100), FrameOffset::Frame(1));
    header_glue(BlockSizeSpec::ExtraTwoBytes(4095), ChannelAssignment::Independent(1), SampleSizeSpec::B24, SampleRateSpec::KHz(48), FrameOffset::Frame(70000));
    header_glue(BlockSizeSpec::ExtraByte(255), ChannelAssignment::LeftSide, SampleSizeSpec::B8, SampleRateSpec::DaHz(4410), FrameOffset::StartSample(5));
    kani::cover!(true);
}

//@ prop: C02
//@ also: C16
//@ drives: HEADER_CRC (crc::Crc<u8, Table<16>>::checksum, update_table::<16>)
//@ bound: every message of 0..=6 bytes (quick); the kernel is a byte-wise table recurrence, so the same step is exercised for longer headers
//@ asserts: the table-driven CRC-8 equals the bitwise RFC 9639 reference (polynomial 0x07, init 0)
#[kani::proof]
#[kani::unwind(10)]
fn c02_h8_crc8_contract_6() {
    let bytes: [u8; 6] = kani::any();
    let n: usize = kani::any();
    kani::assume(n <= 6);
    assert!(HEADER_CRC.checksum(&bytes[..n]) == rf::crc8(&bytes[..n]));
    kani::cover!(n == 6);
}

//@ prop: C02
//@ also: C16
//@ tier: thorough
//@ drives: HEADER_CRC (crc::Crc<u8, Table<16>>::checksum, update_table::<16> incl. the 16-byte slice step)
//@ bound: every message of 0..=17 bytes (longest possible frame header is 16 bytes before the CRC; 16/17 reach the slice-by-16 step)
//@ asserts: as c02_h8_crc8_contract_6
#[kani::proof]
#[kani::unwind(20)]
fn c02_h8_crc8_contract_17() {
    let bytes: [u8; 17] = kani::any();
    let n: usize = kani::any();
    kani::assume(n <= 17);
    assert!(HEADER_CRC.checksum(&bytes[..n]) == rf::crc8(&bytes[..n]));
    kani::cover!(n == 17);
}

//@ prop: C02
//@ also: C16
//@ drives: FRAME_CRC (crc::Crc<u16, Table<16>>::checksum)
//@ bound: every message of 0..=6 bytes (quick)
//@ asserts: the table-driven CRC-16 equals the bitwise RFC 9639 reference (polynomial 0x8005, init 0)
#[kani::proof]
#[kani::unwind(10)]
fn c02_h8_crc16_contract_6() {
    let bytes: [u8; 6] = kani::any();
    let n: usize = kani::any();
    kani::assume(n <= 6);
    assert!(FRAME_CRC.checksum(&bytes[..n]) == rf::crc16(&bytes[..n]));
    kani::cover!(n == 6);
}

//@ prop: C02
//@ also: C16
//@ tier: thorough
//@ drives: FRAME_CRC (crc::Crc<u16, Table<16>>::checksum incl. the 16-byte slice step)
//@ bound: every message of 0..=18 bytes
//@ asserts: as c02_h8_crc16_contract_6
#[kani::proof]
#[kani::unwind(20)]
fn c02_h8_crc16_contract_18() {
    let bytes: [u8; 18] = kani::any();
    let n: usize = kani::any();
    kani::assume(n <= 18);
    assert!(FRAME_CRC.checksum(&bytes[..n]) == rf::crc16(&bytes[..n]));
    kani::cover!(n == 18);
}

//@ prop: C02
//@ expect: fail
//@ drives: (reachability witness) BlockSizeSpec::from_size + write_extra_bits
//@ bound: as c02_h2_block_size_codes
#[kani::proof]
#[kani::unwind(10)]
fn c02_vacuity_twin() {
    let size: u16 = kani::any();
    kani::assume(size >= 1);
    let spec = BlockSizeSpec::from_size(size);
    let mut sink = RecSink::new(usize::MAX);
    let _ = spec.write_extra_bits(&mut sink);
    kani::assume(sink.len == spec.count_extra_bits());
    assert!(false);
}

// ======================================================================== subframes: C08 / C01 serialisation
use crate::verif_ref::subframe as rsub;

fn rec_bytes(s: &RecSink) -> [u8; 64] {
    let mut out = [0u8; 64];
    let mut i = 0;
    while i < 8 {
        let b = s.words[i].to_be_bytes();
        let mut j = 0;
        while j < 8 {
            out[i * 8 + j] = b[j];
            j += 1;
        }
        i += 1;
    }
    out
}
fn unzigzag(q: u32, p: u8, r: u32) -> i64 {
    let folded = ((q as u64) << p) | r as u64;
    if folded & 1 == 1 { -(((folded >> 1) + 1) as i64) } else { (folded >> 1) as i64 }
}

use crate::bitsink::verif_kani::CountSink;

//@ prop: C08
//@ drives: Constant::write/count_bits, Verbatim::write/count_bits, FixedLpc::write/count_bits, Lpc::write/count_bits, Residual::write/count_bits, BitSink::write_twoc and BitSink::write_zeros (default methods)
//@ bound: every legal width 8,9,12,13,..,25 and every sample value; constant (any block size), verbatim of 3 samples, fixed order 0 and 2, LPC order 2 with every precision 1..=15 / shift 0..=15 / coefficient, over residuals of block 4 with 1 or 2 partitions, warm-up 0..=2, parameters 0..=14, quotients free over all of u32 (the sink only counts, so zero runs of any length are covered)
//@ asserts: the number of bits handed to a counting user sink equals count_bits() for every component
#[kani::proof]
#[kani::unwind(12)]
fn c08_subframe_bit_counts() {
    let bps = gen::any_bps();
    let sel: u8 = kani::any();
    let mut sink = CountSink { len: 0 };
    if sel == 0 {
        let c = gen::any_constant(kani::any());
        assert!(c.write(&mut sink).is_ok());
        assert!(sink.len == c.count_bits() && sink.len == 8 + c.bits_per_sample());
    } else if sel == 1 {
        let v = gen::any_verbatim::<3>();
        assert!(v.write(&mut sink).is_ok());
        assert!(sink.len == v.count_bits() && sink.len == 8 + 3 * v.bits_per_sample());
        std::mem::forget(v);
    } else if sel == 2 {
        let r = gen::any_residual::<4, 1, 2>(kani::any::<bool>() as usize * 2, u32::MAX);
        assert!(r.write(&mut sink).is_ok());
        assert!(sink.len == r.count_bits());
        kani::cover!(r.sum_quotients() > (1usize << 33));
        std::mem::forget(r);
    } else if sel == 3 {
        let f = gen::fixed_from::<0>([], gen::any_residual::<4, 0, 1>(0, u32::MAX), bps);
        assert!(f.write(&mut sink).is_ok());
        assert!(sink.len == f.count_bits());
        std::mem::forget(f);
    } else if sel == 4 {
        let warm = [gen::any_sample(bps), gen::any_sample(bps)];
        let f = gen::fixed_from::<2>(warm, gen::any_residual::<4, 0, 1>(2, u32::MAX), bps);
        assert!(f.write(&mut sink).is_ok());
        assert!(sink.len == f.count_bits());
        std::mem::forget(f);
    } else {
        let warm = [gen::any_sample(bps), gen::any_sample(bps)];
        let precision: usize = kani::any();
        kani::assume(precision >= 1 && precision <= 15);
        let shift: i8 = kani::any();
        kani::assume(shift >= 0 && shift <= 15);
        let coefs: [i16; 2] = kani::any();
        let lim = 1i32 << (precision - 1);
        kani::assume((coefs[0] as i32) < lim && (coefs[0] as i32) >= -lim && (coefs[1] as i32) < lim && (coefs[1] as i32) >= -lim);
        let l = gen::lpc_from::<2>(warm, coefs, shift, precision, gen::any_residual::<4, 0, 1>(2, u32::MAX), bps);
        assert!(l.write(&mut sink).is_ok());
        assert!(sink.len == l.count_bits());
        kani::cover!(precision == 15 && sink.len > 100);
        std::mem::forget(l);
    }
    kani::cover!(sel == 1);
}

// ---- serialisation content (C01/C02): the real writer against a reference WRITER built from
// RFC 9639 (field order and widths written out below); both record into a RecSink and the
// recorded strings must be identical.  (A reference decoder over symbolic bit positions was
// measured to exhaust 12 GB; the subframe decoder in verif_ref::subframe is used natively.)
fn ref_put_signed(s: &mut RecSink, v: i64, n: usize) {
    s.put((v as u64) << (64 - n), n);
}
fn ref_put_residual(s: &mut RecSink, r: &Residual) {
    s.put(0, 2); // coding method 00: 4-bit Rice parameters
    s.put((r.partition_order() as u64) << 60, 4);
    let nparts = 1usize << r.partition_order();
    let plen = r.block_size() / nparts;
    let mut t = r.warmup_length();
    let mut p = 0;
    while p < nparts {
        let param = r.rice_params()[p] as usize;
        s.put((param as u64) << 60, 4);
        while t < (p + 1) * plen {
            let q = r.quotients()[t] as usize;
            s.put(0, q); // q zeros (q <= 64 in these harnesses)
            s.put(1u64 << 63, 1); // stop bit
            if param > 0 {
                s.put((r.remainders()[t] as u64) << (64 - param), param);
            }
            t += 1;
        }
        p += 1;
    }
}

//@ prop: C01
//@ also: C02 C08
//@ drives: Constant::write, Verbatim::write, BitSink::write_twoc (default method)
//@ bound: constant subframe and verbatim subframe of 2 samples; every legal width 8,9,12,..,25; every sample value of that width
//@ asserts: the bits handed to a recording user sink are exactly: 0 (padding) | 6-bit type (000000 constant / 000001 verbatim) | 0 (no wasted bits) | each sample as a two's complement field of the declared width
#[kani::proof]
#[kani::unwind(12)]
fn c01_serialise_constant_verbatim() {
    let mut got = RecSink::new(usize::MAX);
    let mut want = RecSink::new(usize::MAX);
    if kani::any() {
        let c = gen::any_constant(16);
        assert!(c.write(&mut got).is_ok());
        want.put(0, 8);
        ref_put_signed(&mut want, c.dc_offset() as i64, c.bits_per_sample());
        kani::cover!(c.dc_offset() < 0 && c.bits_per_sample() == 25);
    } else {
        let v = gen::any_verbatim::<2>();
        assert!(v.write(&mut got).is_ok());
        want.put(0x02u64 << 56, 8);
        ref_put_signed(&mut want, v.samples()[0] as i64, v.bits_per_sample());
        ref_put_signed(&mut want, v.samples()[1] as i64, v.bits_per_sample());
        kani::cover!(v.samples()[1] < 0 && v.bits_per_sample() == 13);
        std::mem::forget(v);
    }
    assert!(got.len == want.len);
    assert!(got.is_prefix_of(&want) && want.is_prefix_of(&got));
}

/// Residual with CONCRETE shape (parameters and quotients concrete, so every bit position is
/// concrete) and symbolic remainders; the real writer against the reference writer.
fn serialise_residual_shape<const B: usize, const PO: u8, const NP: usize>(ps: [u8; NP], qs: [u32; B], warmup: usize) -> bool {
    let mut rs: [u32; B] = kani::any();
    let plen = B / NP;
    let mut t = 0;
    while t < B {
        if t < warmup { rs[t] = 0; } else { kani::assume(rs[t] < (1u32 << ps[t / plen])); }
        t += 1;
    }
    let r = gen::residual_from_arrays::<B, PO, NP>(ps, qs, rs, warmup);
    let mut got = RecSink::new(usize::MAX);
    let mut want = RecSink::new(usize::MAX);
    let w = r.write(&mut got);
    assert!(w.is_ok());
    std::mem::forget(w);
    ref_put_residual(&mut want, &r);
    assert!(got.len == want.len && got.len == r.count_bits());
    assert!(got.is_prefix_of(&want) && want.is_prefix_of(&got));
    let mut t = warmup;
    while t < B {
        assert!(r.residual(t) as i64 == unzigzag(r.quotients()[t], r.rice_params()[t / plen], r.remainders()[t]));
        t += 1;
    }
    let c = rs[B - 1] & 1 == 1;
    std::mem::forget(r);
    c
}

//@ prop: C01
//@ also: C02 C08
//@ drives: Residual::write (try_repeat!-unrolled loop), Residual::count_bits, Residual::residual, BitSink::write_zeros (default method), rice::decode_signbit
//@ bound: block 4; shapes (concrete per path, so that bit positions are concrete): 1 partition with parameter 0, 5 or 14, 2 partitions with parameters (3,9); quotients (0,2,1,0) resp. (1,0,0,3); warm-up 0 or 1; every remainder value below 2^parameter
//@ asserts: the recorded bits equal the RFC 9639 layout: method 00 | 4-bit partition order | per partition: 4-bit parameter (never 1111), then per non-warm-up sample: quotient zeros, a one, the remainder in parameter bits; length == count_bits(); Residual::residual(t) is the zig-zag decoding of (quotient << parameter | remainder)
#[kani::proof]
#[kani::unwind(12)]
fn c01_serialise_residual_shapes() {
    let sel: u8 = kani::any();
    let c = match sel {
        0 => serialise_residual_shape::<4, 0, 1>([0], [0, 2, 1, 0], 0),
        1 => serialise_residual_shape::<4, 0, 1>([5], [0, 2, 1, 0], 1),
        2 => serialise_residual_shape::<4, 0, 1>([14], [1, 0, 0, 3], 0),
        _ => serialise_residual_shape::<4, 1, 2>([3, 9], [0, 2, 1, 0], 1),
    };
    kani::cover!(c && sel == 3);
}

//@ prop: C01
//@ also: C02 C08
//@ drives: Residual::write with symbolic unary length
//@ bound: block 1 (one partition), every parameter 0..=14, every quotient 0..=40, every remainder below 2^parameter
//@ asserts: as c01_serialise_residual_shapes, with the unary run length and the parameter width symbolic
#[kani::proof]
#[kani::unwind(12)]
fn c01_serialise_residual_unary() {
    let r = gen::any_residual::<1, 0, 1>(0, 40);
    let mut got = RecSink::new(usize::MAX);
    let mut want = RecSink::new(usize::MAX);
    let w = r.write(&mut got);
    assert!(w.is_ok());
    std::mem::forget(w);
    ref_put_residual(&mut want, &r);
    assert!(got.len == want.len && got.len == r.count_bits());
    assert!(got.is_prefix_of(&want) && want.is_prefix_of(&got));
    kani::cover!(r.quotients()[0] == 40 && r.rice_params()[0] == 14);
    std::mem::forget(r);
}

//@ prop: C01
//@ also: C02 C08
//@ drives: FixedLpc::write, Lpc::write, QuantizedParameters accessors
//@ bound: block 4, one partition (parameter 6, quotients (0,1,2) after the warm-up, every remainder); fixed order 2 / LPC order 2; widths 16 and 25; every warm-up sample of that width; precision 5 and 15 with every coefficient fitting it; every shift 0..=15
//@ asserts: the recorded bits equal the RFC 9639 layout: 0 | type (001ooo fixed / 1ooooo LPC with order-1) | 0 | warm-up samples | [LPC: precision-1 in 4 bits (never 1111), shift as 5-bit two's complement (non-negative), coefficients in precision bits] | residual
#[kani::proof]
#[kani::unwind(12)]
fn c01_serialise_fixed_and_lpc() {
    // widths are two-valued so that bit positions stay (nearly) concrete
    let bps: u8 = if kani::any() { 16 } else { 25 };
    let warm = [gen::any_sample(bps), gen::any_sample(bps)];
    let mut got = RecSink::new(usize::MAX);
    let mut want = RecSink::new(usize::MAX);
    if kani::any() {
        let f = gen::fixed_from::<2>(warm, gen::residual_sym_remainders::<4, 0, 1>([6], [0, 0, 1, 2], 2), bps);
        assert!(f.write(&mut got).is_ok());
        want.put(((0b001000u64 | 2) << 1) << 56, 8);
        ref_put_signed(&mut want, warm[0] as i64, bps as usize);
        ref_put_signed(&mut want, warm[1] as i64, bps as usize);
        ref_put_residual(&mut want, f.residual());
        assert!(got.len == f.count_bits());
        kani::cover!(warm[0] < 0);
        std::mem::forget(f);
    } else {
        let precision: usize = if kani::any() { 15 } else { 5 };
        let shift: i8 = kani::any();
        kani::assume(shift >= 0 && shift <= 15);
        let coefs: [i16; 2] = kani::any();
        let lim = 1i32 << (precision - 1);
        kani::assume((coefs[0] as i32) < lim && (coefs[0] as i32) >= -lim && (coefs[1] as i32) < lim && (coefs[1] as i32) >= -lim);
        let l = gen::lpc_from::<2>(warm, coefs, shift, precision, gen::residual_sym_remainders::<4, 0, 1>([6], [0, 0, 1, 2], 2), bps);
        assert!(l.write(&mut got).is_ok());
        want.put(((0b100000u64 | 1) << 1) << 56, 8);
        ref_put_signed(&mut want, warm[0] as i64, bps as usize);
        ref_put_signed(&mut want, warm[1] as i64, bps as usize);
        want.put(((precision - 1) as u64) << 60, 4);
        ref_put_signed(&mut want, shift as i64, 5);
        ref_put_signed(&mut want, coefs[0] as i64, precision);
        ref_put_signed(&mut want, coefs[1] as i64, precision);
        ref_put_residual(&mut want, l.residual());
        assert!(got.len == l.count_bits());
        kani::cover!(coefs[0] < 0 && shift == 15 && precision == 15);
        std::mem::forget(l);
    }
    assert!(got.len == want.len);
    assert!(got.is_prefix_of(&want) && want.is_prefix_of(&got));
}

//@ prop: C08
//@ drives: Residual::from_parts (find_max::<64>, wrapping_sum::<u32,32>, the max*block < 2^32 switch), Residual::count_bits
//@ bound: block 4, quotients free over all of u32 (sums above and below 2^32, both sides of the SIMD/scalar switch); nothing is written
//@ asserts: the cached quotient sum equals the exact 64-bit sum; count_bits() equals 6 + 4*partitions + sum(q) + (block-warmup)*(1+p) computed in 64-bit arithmetic
#[kani::proof]
#[kani::unwind(70)]
fn c08_residual_cached_sums_exact() {
    let qs: [u32; 4] = kani::any();
    let p: u8 = kani::any();
    kani::assume(p <= 14);
    let r = Residual::from_parts(0, 4, 0, vec![p], vec![qs[0], qs[1], qs[2], qs[3]], vec![0u32; 4]);
    let exact: u64 = qs[0] as u64 + qs[1] as u64 + qs[2] as u64 + qs[3] as u64;
    assert!(r.sum_quotients() as u64 == exact);
    assert!(r.count_bits() as u64 == 6 + 4 + exact + 4 * (1 + p as u64));
    kani::cover!(exact > (1u64 << 32));
    kani::cover!(exact < 100);
    std::mem::forget(r);
}

//@ prop: C08
//@ drives: StreamInfo::write, StreamInfo::count_bits, MetadataBlock::write (STREAMINFO), Stream::write with no frames
//@ bound: arbitrary STREAMINFO field values (16/16/24/24/20/3/5/36-bit fields, 16 digest bytes); user recording sink
//@ asserts: 272 bits written == count_bits(); each field read back by the bit reader at its RFC 9639 position equals the stored value; the metadata block header is (last flag, type 0, length 34)
#[kani::proof]
#[kani::unwind(20)]
fn c08_stream_info_layout() {
    let info = gen::any_stream_info_fields();
    let mut sink = RecSink::new(usize::MAX);
    let w = info.write(&mut sink);
    assert!(w.is_ok());
    std::mem::forget(w);
    assert!(sink.len == 272 && info.count_bits() == 272);
    let bytes = rec_bytes(&sink);
    let mut rd = rf::BitReader::new(&bytes);
    assert!(rd.read(16) as usize == info.min_block_size());
    assert!(rd.read(16) as usize == info.max_block_size());
    assert!(rd.read(24) as usize == info.min_frame_size());
    assert!(rd.read(24) as usize == info.max_frame_size());
    assert!(rd.read(20) as usize == info.sample_rate());
    assert!(rd.read(3) as usize + 1 == info.channels());
    assert!(rd.read(5) as usize + 1 == info.bits_per_sample());
    assert!(rd.read(36) as usize == info.total_samples());
    let k: usize = kani::any();
    kani::assume(k < 16);
    assert!(bytes[18 + k] == info.md5_digest()[k]);
    kani::cover!(info.channels() == 8 && info.total_samples() > (1 << 35));
}

//@ prop: C08
//@ expect: fail
//@ drives: (reachability witness) Residual::write into the counting sink
//@ bound: as c08_subframe_bit_counts
#[kani::proof]
#[kani::unwind(12)]
fn c08_vacuity_twin() {
    let r = gen::any_residual::<4, 0, 1>(0, u32::MAX);
    let mut sink = CountSink { len: 0 };
    let _ = r.write(&mut sink);
    kani::assume(sink.len == r.count_bits());
    std::mem::forget(r);
    assert!(false);
}

//@ prop: C01
//@ expect: fail
//@ drives: (reachability witness) serialise_residual_shape::<4,0,1>
//@ bound: as c01_serialise_residual_shapes
#[kani::proof]
#[kani::unwind(12)]
fn c01_vacuity_twin() {
    let _ = serialise_residual_shape::<4, 0, 1>([5], [0, 2, 1, 0], 1);
    assert!(false);
}

// ======================================================================== C12: failing user sink
/// Runs `$write` on a sink failing at its k-th operation (k symbolic, 0..=total ops) and on a
/// sink that never fails: the failing run must return Err(OutputError::Sink) without
/// panicking and the bits it accepted must be a prefix of the full bitstream.
macro_rules! failing_sink_case {
    ($comp:expr) => {{
        let mut full = RecSink::new(usize::MAX);
        let r = $comp.write(&mut full);
        let ok = r.is_ok();
        std::mem::forget(r);
        assert!(ok);
        let k: usize = kani::any();
        kani::assume(k < full.ops);
        let mut failing = RecSink::new(k);
        let r = $comp.write(&mut failing);
        let is_sink_err = matches!(r, Err(OutputError::Sink(_)));
        std::mem::forget(r);
        assert!(is_sink_err);
        assert!(failing.ops == k + 1);
        assert!(failing.is_prefix_of(&full));
        (k, full.ops)
    }};
}

/// C12 + C10: after a write that failed on the caller's sink, the same component written again
/// on the same thread into a healthy sink gives exactly the bits of the first, undisturbed
/// write (the thread-local scratch sinks of `FrameHeader::write` / `Frame::write` hold nothing
/// of the failed attempt).
macro_rules! failing_sink_then_retry_case {
    ($comp:expr) => {{
        let mut full = RecSink::new(usize::MAX);
        let r = $comp.write(&mut full);
        let ok = r.is_ok();
        std::mem::forget(r);
        assert!(ok);
        let k: usize = kani::any();
        kani::assume(k < full.ops);
        let mut failing = RecSink::new(k);
        let r = $comp.write(&mut failing);
        let is_sink_err = matches!(r, Err(OutputError::Sink(_)));
        std::mem::forget(r);
        assert!(is_sink_err);
        assert!(failing.ops == k + 1);
        assert!(failing.is_prefix_of(&full));
        let mut again = RecSink::new(usize::MAX);
        let r = $comp.write(&mut again);
        let ok = r.is_ok();
        std::mem::forget(r);
        assert!(ok);
        assert!(again.len == full.len && again.ops == full.ops);
        assert!(again.is_prefix_of(&full) && full.is_prefix_of(&again));
        (k, full.ops)
    }};
}

//@ prop: C12
//@ drives: FrameHeader::write, MetadataBlock::write, MetadataBlockData::write, StreamInfo::write, BitSink::write_bytes_aligned (default method), OutputError::from_sink
//@ bound: a concrete frame header (4097 samples, 16001 Hz, mid-side, frame 2^31-1: 13 bytes), an unknown metadata block with 2 arbitrary payload bytes, an arbitrary STREAMINFO; the sink fails on its k-th operation for every k below the number of operations of the write
//@ asserts: the write returns Err(OutputError::Sink) (no panic); the failing sink saw exactly k+1 operations; the bits it accepted are a prefix of the bits a non-failing sink receives
//@ stubs: alloc::fmt::format -> empty string
#[kani::proof]
#[kani::unwind(19)]
#[kani::stub(alloc::fmt::format, fmt_stub)]
fn c12_failing_sink_header_and_metadata() {
    let sel: u8 = kani::any();
    if sel == 0 {
        let mut h = FrameHeader::from_specs(BlockSizeSpec::from_size(4097), ChannelAssignment::MidSide, SampleSizeSpec::B24, SampleRateSpec::Hz(16001));
        h.set_frame_offset(FrameOffset::Frame(0x7FFF_FFFF));
        let (k, ops) = failing_sink_then_retry_case!(h);
        kani::cover!(k + 1 == ops && ops > 10);
        std::mem::forget(h);
    } else if sel == 1 {
        let data: [u8; 2] = kani::any();
        let b = MetadataBlock::from_parts(kani::any(), MetadataBlockData::Unknown { typetag: 5, data: vec![data[0], data[1]] });
        let (k, ops) = failing_sink_case!(b);
        kani::cover!(k + 1 == ops);
        std::mem::forget(b);
    } else {
        let info = gen::any_stream_info_fields();
        let (k, ops) = failing_sink_case!(info);
        kani::cover!(k == 8);
    }
}

//@ prop: C12
//@ drives: SubFrame::write, Constant::write, Verbatim::write, FixedLpc::write, Residual::write
//@ bound: a constant subframe, a 2-sample verbatim subframe and an order-0 fixed subframe with a 4-sample residual (arbitrary legal field values); the sink fails on its k-th operation for every k
//@ asserts: as c12_failing_sink_header_and_metadata
#[kani::proof]
#[kani::unwind(12)]
fn c12_failing_sink_subframes() {
    let sel: u8 = kani::any();
    if sel == 0 {
        let c: SubFrame = gen::any_constant(16).into();
        let (k, ops) = failing_sink_case!(c);
        kani::cover!(k + 1 == ops);
        std::mem::forget(c);
    } else if sel == 1 {
        let v: SubFrame = gen::any_verbatim::<2>().into();
        let (k, ops) = failing_sink_case!(v);
        kani::cover!(k == 1);
        std::mem::forget(v);
    } else {
        let f: SubFrame = gen::fixed_from::<0>([], gen::any_residual::<4, 0, 1>(0, 2), gen::any_bps()).into();
        let (k, ops) = failing_sink_case!(f);
        kani::cover!(k > 5);
        std::mem::forget(f);
    }
}

//@ prop: C12
//@ drives: Residual::write (the try_repeat!-unrolled quotient/remainder loop: several 4-sample batches inside one partition), OutputError::from_sink
//@ bound: a residual of 5 samples in one partition (one full 4-sample batch and a remainder batch of 1) with arbitrary Rice parameter <= 14, quotients <= 2 and remainders; the sink fails ONCE, on its k-th operation, for every k (a transient fault: later operations would succeed again)
//@ asserts: as c12_failing_sink_header_and_metadata - in particular an error raised in a batch that is not the last one of its partition is still returned, and the writer issues no further operation after it
#[kani::proof]
#[kani::unwind(12)]
fn c12_failing_sink_residual_batches() {
    let r = gen::any_residual::<5, 0, 1>(0, 2);
    let (k, ops) = failing_sink_case!(r);
    kani::cover!(k == 3 && ops >= 11);
    std::mem::forget(r);
}

//@ prop: C12
//@ tier: thorough
//@ drives: Residual::write (three batches in one partition)
//@ bound: as c12_failing_sink_residual_batches with 9 samples (two full batches and a remainder; measured 8 min)
//@ asserts: as c12_failing_sink_residual_batches
#[kani::proof]
#[kani::unwind(12)]
fn c12_failing_sink_residual_three_batches() {
    let r = gen::any_residual::<9, 0, 1>(0, 2);
    let (k, ops) = failing_sink_case!(r);
    kani::cover!(k == 3 && ops >= 19);
    std::mem::forget(r);
}

/// A frame consisting of header and footer only (no subframes).  `Frame::write` does not look
/// at the channel count, so this exercises exactly the frame-level code (header, alignment,
/// byte export, CRC-16 footer, hand-over to the caller's sink).  Frames WITH subframes are out
/// of CBMC's reach: reading a `SubFrame` back from a `Vec<SubFrame>` leaves the enum
/// discriminant unresolved and symbolic execution explores every subframe writer (measured:
/// no answer in 10 min even for fully concrete content).
fn bare_frame() -> Frame {
    let mut h = FrameHeader::from_specs(BlockSizeSpec::from_size(16), ChannelAssignment::Independent(1), SampleSizeSpec::B16, SampleRateSpec::R44_1kHz);
    h.set_frame_offset(FrameOffset::Frame(3));
    gen::frame_of(h, Vec::new())
}

fn small_frame(two_channels: bool) -> Frame {
    let mut h = FrameHeader::from_specs(
        BlockSizeSpec::from_size(16),
        ChannelAssignment::Independent(if two_channels { 2 } else { 1 }),
        SampleSizeSpec::B16,
        SampleRateSpec::R44_1kHz,
    );
    h.set_frame_offset(FrameOffset::Frame(3));
    let mut subs: Vec<SubFrame> = Vec::with_capacity(2);
    subs.push(Constant::from_parts(16, kani::any::<i16>() as i32, 16).into());
    if two_channels {
        subs.push(Constant::from_parts(16, kani::any::<i16>() as i32, 16).into());
    }
    gen::frame_of(h, subs)
}

pub(crate) fn crc16_update_stub<const L: usize>(crc: u16, _alg: &crc::Algorithm<u16>, _table: &[[u16; 256]; L], bytes: &[u8]) -> u16 {
    let mut c = crc;
    let mut i = 0;
    while i < bytes.len() {
        c ^= (bytes[i] as u16) << 8;
        let mut k = 0;
        while k < 8 {
            c = if c & 0x8000 != 0 { (c << 1) ^ 0x8005 } else { c << 1 };
            k += 1;
        }
        i += 1;
    }
    c
}

//@ prop: C12
//@ drives: Frame::write (FRAME_CRC_BUFFER path: MemSink<u64> -> byte buffer -> CRC-16 -> caller's sink)
//@ bound: a frame of header + footer (16-sample header, frame number 3, no subframes: 9 bytes); the sink fails on its k-th operation for every k; frames with subframes are outside the bound (Vec<SubFrame> defeats CBMC, see bare_frame)
//@ asserts: Err(OutputError::Sink), no panic, the failing sink saw k+1 operations, accepted bits are a prefix of the full bitstream; and the SAME frame written again on the same thread after the failure gives exactly the original bits (nothing of the failed attempt stays in the thread-local scratch sink - the multi-step history "fault, then retry")
//@ also: C10
//@ stubs: alloc::fmt::format -> empty string; crc::crc8::update_table and crc::crc16::update_table -> bitwise reference (contract checked by c02_h8_*)
#[kani::proof]
#[kani::unwind(14)]
#[kani::stub(alloc::fmt::format, fmt_stub)]
#[kani::stub(crc::crc8::update_table, crc8_update_stub)]
#[kani::stub(crc::crc16::update_table, crc16_update_stub)]
fn c12_failing_sink_frame() {
    let f = bare_frame();
    let (k, ops) = failing_sink_then_retry_case!(f);
    kani::cover!(k + 1 == ops);
    kani::cover!(k == 0);
    std::mem::forget(f);
}

fn frame_retry_after_fault_at(k: usize, full: &RecSink) {
    let f = bare_frame();
    let mut failing = RecSink::new(k);
    let r = f.write(&mut failing);
    let is_sink_err = matches!(r, Err(OutputError::Sink(_)));
    std::mem::forget(r);
    assert!(is_sink_err);
    assert!(failing.is_prefix_of(full));
    let mut again = RecSink::new(usize::MAX);
    let r = f.write(&mut again);
    let ok = r.is_ok();
    std::mem::forget(r);
    assert!(ok);
    assert!(again.len == full.len && again.ops == full.ops);
    assert!(again.is_prefix_of(full) && full.is_prefix_of(&again));
    std::mem::forget(f);
}

//@ prop: C12
//@ also: C10
//@ drives: Frame::write twice on one thread: a write that fails on the caller's sink at a CONCRETE operation (first, fifth, last), then the same frame into a healthy sink (FRAME_CRC_BUFFER scratch sink and byte buffer reused)
//@ bound: the header+footer frame of c12_failing_sink_frame; fault points k = 0, 4 and the last operation (concrete per path: with a symbolic fault point a leaked scratch makes the second write's length symbolic and CBMC exhausts memory instead of answering - measured on two seeded changes)
//@ asserts: the second write succeeds and produces exactly the bits of an undisturbed write: nothing of the failed attempt is left in the thread-local scratch sink
//@ stubs: as c12_failing_sink_frame
#[kani::proof]
#[kani::unwind(14)]
#[kani::stub(alloc::fmt::format, fmt_stub)]
#[kani::stub(crc::crc8::update_table, crc8_update_stub)]
#[kani::stub(crc::crc16::update_table, crc16_update_stub)]
fn c12_frame_retry_after_fault_at_fixed_points() {
    let f = bare_frame();
    let mut full = RecSink::new(usize::MAX);
    let r = f.write(&mut full);
    let ok = r.is_ok();
    std::mem::forget(r);
    std::mem::forget(f);
    assert!(ok && full.ops >= 6);
    let last = full.ops - 1;
    frame_retry_after_fault_at(0, &full);
    frame_retry_after_fault_at(4, &full);
    frame_retry_after_fault_at(last, &full);
    kani::cover!(true);
}

//@ prop: C12
//@ tier: thorough
//@ drives: Frame::precompute_bitstream, Frame::write (precomputed path)
//@ bound: as c12_failing_sink_frame, after precompute_bitstream()
//@ asserts: as c12_failing_sink_frame
//@ stubs: alloc::fmt::format -> empty string; crc update_table kernels -> bitwise reference
#[kani::proof]
#[kani::unwind(14)]
#[kani::stub(alloc::fmt::format, fmt_stub)]
#[kani::stub(crc::crc8::update_table, crc8_update_stub)]
#[kani::stub(crc::crc16::update_table, crc16_update_stub)]
fn c12_failing_sink_frame_precomputed() {
    let mut f = bare_frame();
    f.precompute_bitstream();
    let (k, ops) = failing_sink_case!(f);
    kani::cover!(k + 1 == ops);
    std::mem::forget(f);
}

//@ prop: C08
//@ also: C02
//@ drives: Frame::write (real CRC-16), Frame::count_bits, Frame::precompute_bitstream, Frame::write (precomputed path)
//@ bound: a frame of header + footer (16-sample header, frame number 3, no subframes); written directly and after precompute_bitstream(); frames with subframes are outside the bound (see bare_frame)
//@ asserts: bits written == count_bits() (a whole number of bytes) before and after precomputation, identical bytes both ways; the last two bytes are the bitwise reference CRC-16 of all preceding bytes; the frame header decodes with the reference decoder
//@ stubs: alloc::fmt::format -> empty string
#[kani::proof]
#[kani::unwind(14)]
#[kani::stub(alloc::fmt::format, fmt_stub)]
fn c08_frame_write_counts_and_crc() {
    let mut f = bare_frame();
    let bits = f.count_bits();
    assert!(bits % 8 == 0 && bits == 56 + 16); // 16-sample blocks use the 8-bit block-size field
    let mut full = RecSink::new(usize::MAX);
    let r = f.write(&mut full);
    let ok = r.is_ok();
    std::mem::forget(r);
    assert!(ok && full.len == bits);
    let bytes = rec_bytes(&full);
    let n = bits / 8;
    let crc = rf::crc16(&bytes[..n - 2]);
    assert!(bytes[n - 2] == (crc >> 8) as u8 && bytes[n - 1] == crc as u8);
    assert!(matches!(rf::decode_header(&bytes[..n]), Ok(d) if d.block_size == 16 && d.number == 3 && d.header_bytes == 7 && d.bits == Some(16) && d.channels_code == 0));
    f.precompute_bitstream();
    assert!(f.count_bits() == bits);
    let mut full2 = RecSink::new(usize::MAX);
    let r = f.write(&mut full2);
    assert!(r.is_ok());
    std::mem::forget(r);
    assert!(full2.len == bits && full2.is_prefix_of(&full) && full.is_prefix_of(&full2));
    kani::cover!(true);
    std::mem::forget(f);
}

//@ prop: C10
//@ also: C12
//@ tier: thorough
//@ drives: FrameHeader::write (HEADER_CRC_BUFFER scratch sink reused across calls), Frame::write (FRAME_CRC_BUFFER scratch sink and byte buffer reused across calls), after earlier calls on the same thread that FAILED part-way or wrote something longer (thorough tier since round 3: five writes in one harness exhaust 12 GB or the 10-min cap on a loaded machine; the quick tier has the two-call histories c12_failing_sink_frame / c12_frame_retry_after_fault_at_fixed_points)
//@ bound: histories of three calls on one thread: (1) a header write that fails after filling the scratch sink (start sample 2^40 is not encodable), (2) a frame write that fails the same way, (3) a successful longer header write; then the header and frame under test (16-sample header, frame 3; header+footer frame)
//@ asserts: the bytes written by the calls under test are exactly those of a fresh thread: length == count_bits(), the reference header decoder accepts them with the same fields, CRC-8/CRC-16 equal the bitwise reference over exactly these bytes (nothing of the earlier calls leaks in)
//@ stubs: alloc::fmt::format -> empty string
#[kani::proof]
#[kani::unwind(18)]
#[kani::stub(alloc::fmt::format, fmt_stub)]
fn c10_crc_scratch_sinks_after_failed_writes() {
    // (1) failing header write: the scratch sink is filled up to the number field, then Err
    let mut bad = FrameHeader::from_specs(BlockSizeSpec::from_size(4096), ChannelAssignment::Independent(2), SampleSizeSpec::B16, SampleRateSpec::R44_1kHz);
    bad.set_frame_offset(FrameOffset::StartSample(1u64 << 40));
    let mut sink0 = RecSink::new(usize::MAX);
    let r = bad.write(&mut sink0);
    let failed = r.is_err();
    std::mem::forget(r);
    assert!(failed && sink0.len == 0);
    // (2) failing frame write (same unencodable header inside a frame)
    let badframe = gen::frame_of(bad, Vec::new());
    let r = badframe.write(&mut sink0);
    let failed = r.is_err();
    std::mem::forget(r);
    assert!(failed && sink0.len == 0);
    std::mem::forget(badframe);
    // (3) a successful, longer header write
    header_glue(BlockSizeSpec::from_size(4097), ChannelAssignment::MidSide, SampleSizeSpec::B24, SampleRateSpec::Hz(16001), FrameOffset::Frame(0x7FFF_FFFF));
    // calls under test
    header_glue(BlockSizeSpec::from_size(16), ChannelAssignment::Independent(1), SampleSizeSpec::B16, SampleRateSpec::R44_1kHz, FrameOffset::Frame(3));
    let f = bare_frame();
    let bits = f.count_bits();
    let mut full = RecSink::new(usize::MAX);
    let r = f.write(&mut full);
    let ok = r.is_ok();
    std::mem::forget(r);
    assert!(ok && full.len == bits && bits == 72);
    let bytes = rec_bytes(&full);
    let n = bits / 8;
    let crc = rf::crc16(&bytes[..n - 2]);
    assert!(bytes[n - 2] == (crc >> 8) as u8 && bytes[n - 1] == crc as u8);
    assert!(matches!(rf::decode_header(&bytes[..n]), Ok(d) if d.block_size == 16 && d.number == 3 && d.header_bytes == 7));
    kani::cover!(true);
    std::mem::forget(f);
}

//@ prop: C12
//@ also: C08 C02
//@ drives: Stream::write, Stream::count_bits, Stream::add_metadata_block, MetadataBlock::write, StreamInfo::write
//@ bound: a stream with STREAMINFO (44.1 kHz, 1 channel, 16 bit), optionally one unknown metadata block (2 bytes), no frames; the sink fails on its k-th operation for every k
//@ asserts: failing sink: Err(OutputError::Sink), no panic, accepted bits are a prefix; non-failing sink: bits == count_bits(); stream starts with fLaC; the STREAMINFO block header carries the last-block flag iff no metadata block follows, the extra block has it set; nothing follows
//@ stubs: alloc::fmt::format -> empty string
#[kani::proof]
#[kani::unwind(19)]
#[kani::stub(alloc::fmt::format, fmt_stub)]
fn c12_failing_sink_stream() {
    // the stream shape is concrete on each path (a symbolic `if` around add_metadata_block makes
    // the Vec<MetadataBlock> symbolic: 32 s -> no answer in 10 min)
    if kani::any() { failing_sink_stream_case(false) } else { failing_sink_stream_case(true) }
}
fn failing_sink_stream_case(with_md: bool) {
    let mut s = gen::stream_of(gen::stream_info_of(44100, 1, 16));
    if with_md {
        s.add_metadata_block(MetadataBlockData::Unknown { typetag: 4, data: vec![0xAB, 0xCD] });
    }
    let bits = s.count_bits();
    let mut full = RecSink::new(usize::MAX);
    let r = s.write(&mut full);
    let ok = r.is_ok();
    std::mem::forget(r);
    assert!(ok && full.len == bits);
    let bytes = rec_bytes(&full);
    assert!(bytes[0] == 0x66 && bytes[1] == 0x4C && bytes[2] == 0x61 && bytes[3] == 0x43);
    assert!(bytes[4] == if with_md { 0x00 } else { 0x80 });
    assert!(bytes[5] == 0 && bytes[6] == 0 && bytes[7] == 34);
    let mut p = 8 + 34;
    if with_md {
        assert!(bytes[p] == 0x84 && bytes[p + 3] == 2 && bytes[p + 4] == 0xAB);
        p += 6;
    }
    assert!(bits / 8 == p);
    let k: usize = kani::any();
    kani::assume(k < full.ops);
    let mut failing = RecSink::new(k);
    let r = s.write(&mut failing);
    let is_sink_err = matches!(r, Err(OutputError::Sink(_)));
    std::mem::forget(r);
    assert!(is_sink_err);
    assert!(failing.is_prefix_of(&full));
    kani::cover!(with_md && k > 30);
    std::mem::forget(s);
}

//@ prop: C12
//@ expect: fail
//@ drives: (reachability witness) failing_sink_case on a constant subframe
//@ bound: as c12_failing_sink_subframes
#[kani::proof]
#[kani::unwind(20)]
fn c12_vacuity_twin() {
    let c: SubFrame = gen::any_constant(16).into();
    let (_k, _ops) = failing_sink_case!(c);
    std::mem::forget(c);
    assert!(false);
}
