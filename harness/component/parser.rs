//@file-needs: component/datatype.rs, component/bitrepr.rs, bitsink.rs
// Harnesses for C16 (parser never panics / rejects altered frames) and C15 (parser inverts
// the writer).  Child module of `component::parser`.  nom's combinators are expensive for
// CBMC (a full frame-header parse over 10 arbitrary bytes did not finish in 25 min), so
// arbitrary-byte exploration is done per sub-parser on short buffers.

use super::*;
use crate::component::bitrepr::BitRepr;
use crate::component::datatype::verif_kani as gen;
use crate::verif_ref::bits as rf;

type E<'a> = (&'a [u8], nom::error::ErrorKind);
type BE<'a> = (BitInput<'a>, nom::error::ErrorKind);

pub(crate) fn fmt_stub(_args: std::fmt::Arguments<'_>) -> String {
    String::new()
}

// ======================================================================== C16: no panic on arbitrary bytes
//@ prop: C16
//@ also: C15
//@ drives: parser::utf8_code
//@ bound: every buffer of 0..=8 arbitrary bytes
//@ asserts: never panics; returns an error or (value, rest); when the bytes are a canonical RFC 9639 coded number the value and the consumed length agree with the reference decoder (so it inverts encode_to_utf8like, c02_h1)
#[kani::proof]
#[kani::unwind(10)]
fn c16_utf8_code_arbitrary_bytes() {
    let bytes: [u8; 8] = kani::any();
    let n: usize = kani::any();
    kani::assume(n <= 8);
    let r = utf8_code::<(_, nom::error::ErrorKind)>(&bytes[..n]);
    if let Some((v, used)) = rf::utf8_decode(&bytes[..n]) {
        match r {
            Ok((rest, got)) => assert!(got == v && rest.len() == n - used),
            Err(_) => assert!(false),
        }
        kani::cover!(used == 7);
    }
    kani::cover!(r.is_err());
}

//@ prop: C16
//@ drives: parser::block_size_code, parser::sample_rate_code, SampleRateSpec::from_tag_and_data, BlockSizeSpec::block_size
//@ bound: every 4-bit tag (all of u8 is tried) and every pair of following bytes
//@ asserts: never panics (incl. the size accessors on the parsed value: 8-bit payload 255 and 16-bit payload 65535); reserved tags give an error; otherwise the parsed spec re-serialises to the same tag
#[kani::proof]
#[kani::unwind(6)]
fn c16_header_code_parsers_total() {
    let tag: u8 = kani::any();
    kani::assume(tag <= 15);
    let bytes: [u8; 2] = kani::any();
    let n: usize = kani::any();
    kani::assume(n <= 2);
    match block_size_code::<(_, nom::error::ErrorKind)>(tag)(&bytes[..n]) {
        Ok((_rest, spec)) => {
            assert!(tag != 0 && spec.tag() == tag);
            let bs = spec.block_size();
            assert!(matches!(bs, Some(x) if x >= 1 && x <= 65536));
            kani::cover!(tag == 7);
        }
        Err(_) => {
            assert!(tag == 0 || (tag == 6 && n < 1) || (tag == 7 && n < 2));
        }
    }
    match sample_rate_code::<(_, nom::error::ErrorKind)>(tag)(&bytes[..n]) {
        Ok((_rest, spec)) => {
            assert!(tag != 15 && spec.tag() == tag);
        }
        Err(_) => {
            assert!(tag == 15 || (tag == 12 && n < 1) || ((tag == 13 || tag == 14) && n < 2));
        }
    };
}

//@ prop: C16
//@ drives: parser::subframe_header, parser::constant, parser::verbatim, parser::u_to_i, parser::raw_samples
//@ bound: every buffer of 4 arbitrary bytes starting at every bit offset 0..=7; block size 2; bits-per-sample 4..=25 (the callers' range: declared width up to 24 plus the side-channel bit)
//@ asserts: never panics (a set wasted-bits flag, which this library does not support, must be a parse error); parsed samples lie within the declared width
#[kani::proof]
#[kani::unwind(8)]
fn c16_constant_verbatim_arbitrary_bytes() {
    let bytes: [u8; 4] = kani::any();
    let off: usize = kani::any();
    kani::assume(off <= 7);
    let bps: usize = kani::any();
    kani::assume(bps >= 4 && bps <= 25);
    if kani::any() {
        if let Ok((_rest, c)) = constant::<(_, nom::error::ErrorKind)>(2, bps)((&bytes[..], off)) {
            let v = c.dc_offset() as i64;
            assert!(v < (1i64 << (bps - 1)) && v >= -(1i64 << (bps - 1)));
            assert!(bytes[0] << off >> 1 == 0 || off > 0);
            kani::cover!(v < 0);
        }
    } else if bps <= 12 {
        if let Ok((_rest, v)) = verbatim::<(_, nom::error::ErrorKind)>(2, bps)((&bytes[..], off)) {
            let s = v.samples();
            assert!(s.len() == 2);
            let x = s[1] as i64;
            assert!(x < (1i64 << (bps - 1)) && x >= -(1i64 << (bps - 1)));
            kani::cover!(x < 0);
            std::mem::forget(v);
        }
    }
}

//@ prop: C16
//@ drives: parser::quantized_parameters, QuantizedParameters::new
//@ bound: LPC order 1; 3 arbitrary bytes at bit offset 0 (4-bit precision code, 5-bit shift, one coefficient of up to 16 bits)
//@ asserts: never panics: the invalid precision code 1111 and negative shifts must be parse errors; an accepted parameter set has precision 1..=15 and shift >= 0
//@ stubs: alloc::fmt::format -> empty string
#[kani::proof]
#[kani::unwind(36)]
#[kani::stub(alloc::fmt::format, fmt_stub)]
fn c16_lpc_parameters_arbitrary_bytes() {
    let bytes: [u8; 4] = kani::any();
    let r = quantized_parameters::<(_, nom::error::ErrorKind)>(1)((&bytes[..], 0));
    if let Ok((_rest, q)) = r {
        assert!(q.precision() >= 1 && q.precision() <= 15 && q.shift() >= 0 && q.order() == 1);
        kani::cover!(q.precision() == 15);
        std::mem::forget(q);
    };
    kani::cover!(bytes[0] >> 4 == 15);
}

fn lpc_order_case(order: u8) {
    let bytes: [u8; 8] = [(0x20 + order - 1) << 1, 0xA5, 0x5A, 0xFF, 0x00, 0x12, 0x34, 0x56];
    let r = lpc::<(_, nom::error::ErrorKind)>(40, 1)((&bytes[..], 0));
    if let Ok((_rest, l)) = r {
        assert!(l.order() <= 24);
        std::mem::forget(l);
    };
}

//@ prop: C16
//@ drives: parser::lpc (subframe type -> order, warm-up vector)
//@ bound: an LPC subframe whose type byte announces order 25 (legal in FLAC, above this library's maximum of 24); 1-bit warm-up samples; concrete bytes (the outcome does not depend on the sample bits)
//@ asserts: never panics: unsupported orders must be parse errors
//@ stubs: alloc::fmt::format -> empty string
#[kani::proof]
#[kani::unwind(36)]
#[kani::stub(alloc::fmt::format, fmt_stub)]
fn c16_lpc_order_above_maximum() {
    lpc_order_case(25);
    kani::cover!(true);
}

//@ prop: C16
//@ tier: thorough
//@ drives: parser::lpc (subframe type -> order, warm-up vector)
//@ bound: as c16_lpc_order_above_maximum with order 32 (the largest the type byte can announce)
//@ asserts: never panics: unsupported orders must be parse errors
//@ stubs: alloc::fmt::format -> empty string
#[kani::proof]
#[kani::unwind(36)]
#[kani::stub(alloc::fmt::format, fmt_stub)]
fn c16_lpc_order_32() {
    lpc_order_case(32);
    kani::cover!(true);
}

fn fixed_type_case(t: u8) {
    let bytes: [u8; 6] = [t, 0xFF, 0xFF, 0xFF, 0xFF, 0xFF];
    let r = fixed_lpc::<(_, nom::error::ErrorKind)>(40, 4)((&bytes[..], 0));
    let ok = r.is_ok();
    std::mem::forget(r);
    assert!(!ok);
}

//@ prop: C16
//@ drives: parser::fixed_lpc (type byte -> predictor order, warm-up vector), parser::subframe_header, parser::raw_samples
//@ bound: the three RESERVED fixed-predictor type codes 0b001101, 0b001110, 0b001111 ("orders" 5..7; concrete per path because a symbolic order makes the warm-up container symbolic: no answer in 10 min) and the largest valid one (order 4), followed by all-ones bytes at 4 bits per sample so that the residual coding method reads as the reserved 0b11
//@ asserts: never panics; nothing is accepted
//@ stubs: alloc::fmt::format -> empty string
#[kani::proof]
#[kani::unwind(12)]
#[kani::stub(alloc::fmt::format, fmt_stub)]
fn c16_fixed_reserved_orders() {
    fixed_type_case(0x0D << 1);
    fixed_type_case(0x0E << 1);
    fixed_type_case(0x0F << 1);
    fixed_type_case(0x0C << 1);
    kani::cover!(true);
}

fn residual_bytes_case<const ORDER: u8, const WARM: usize>() -> bool {
    // 2-bit method 00 | 4-bit partition order (concrete per path: it fixes the container
    // shapes) | then arbitrary bits: parameters, unary quotients, remainders
    // (all 18 free bits symbolic did not finish in 15 min: nom's bit-level combinators; the
    // first parameter is concrete 0 and only the last byte is free)
    let last: u8 = kani::any();
    let bytes: [u8; 3] = [ORDER << 2, 0x2A, last];
    let ok = if let Ok((_rest, r)) = residual::<(_, nom::error::ErrorKind)>(2, WARM)((&bytes[..], 0)) {
        assert!(r.rice_params().len() == 1usize << ORDER);
        std::mem::forget(r);
        true
    } else {
        false
    };
    ok
}

//@ prop: C16
//@ tier: thorough
//@ drives: parser::residual, parser::unary_code, Residual::from_parts (measured: no answer in 15 min even with one free byte - reported undecided when it times out)
//@ bound: 3 bytes at bit offset 0: coding method 00, partition order 0 or 1 (concrete per path), first parameter 0, the last byte arbitrary; block size 2; warm-up 0, 1 and 2 (incl. a warm-up longer than a partition, which a corrupted order field produces). Mostly a concrete-shape run: arbitrary bits through nom's bit combinators are beyond CBMC
//@ asserts: never panics (error, incomplete or a residual with 2^order parameters)
#[kani::proof]
#[kani::unwind(70)]
fn c16_residual_arbitrary_bits() {
    let sel: u8 = kani::any();
    let ok = match sel {
        0 => residual_bytes_case::<0, 0>(),
        1 => residual_bytes_case::<0, 2>(),
        2 => residual_bytes_case::<1, 0>(),
        3 => residual_bytes_case::<1, 1>(),
        _ => residual_bytes_case::<1, 2>(),
    };
    kani::cover!(ok && sel == 2);
    kani::cover!(!ok);
}

// ======================================================================== C16: altered frames
//@ prop: C16
//@ drives: HEADER_CRC, FRAME_CRC (table-driven kernels)
//@ bound: every message of 6 bytes; every non-zero error burst confined to 8 consecutive bits (CRC-8) / 16 consecutive bits (CRC-16) at every bit position of the message
//@ asserts: the checksum of the altered message differs from the checksum of the original, i.e. a frame altered by a single bit or a run of up to 8 (16) bits never keeps a valid header CRC (frame CRC); the parser compares exactly these checksums (c16_frame_header_crc_gate)
#[kani::proof]
#[kani::unwind(8)]
fn c16_crc_detects_bursts() {
    let m: [u8; 6] = kani::any();
    let pos: usize = kani::any(); // bit position of the first altered bit
    kani::assume(pos < 48);
    let mut e = [0u8; 6];
    let mut m2 = m;
    if kani::any() {
        let pat: u8 = kani::any();
        kani::assume(pat & 0x80 != 0); // burst starts at `pos`
        kani::assume(pos + 8 <= 48);
        let w = (pat as u16) << 8 >> (pos % 8);
        e[pos / 8] = (w >> 8) as u8;
        if pos / 8 + 1 < 6 { e[pos / 8 + 1] = w as u8; }
        let mut i = 0;
        while i < 6 { m2[i] ^= e[i]; i += 1; }
        assert!(HEADER_CRC.checksum(&m) != HEADER_CRC.checksum(&m2));
        kani::cover!(pat == 0x80);
    } else {
        let pat: u16 = kani::any();
        kani::assume(pat & 0x8000 != 0);
        kani::assume(pos + 16 <= 48);
        let w = (pat as u32) << 16 >> (pos % 8);
        e[pos / 8] = (w >> 24) as u8;
        e[pos / 8 + 1] = (w >> 16) as u8;
        if pos / 8 + 2 < 6 { e[pos / 8 + 2] = (w >> 8) as u8; }
        let mut i = 0;
        while i < 6 { m2[i] ^= e[i]; i += 1; }
        assert!(FRAME_CRC.checksum(&m) != FRAME_CRC.checksum(&m2));
        kani::cover!(pat == 0xFFFF);
    }
}

//@ prop: C16
//@ expect: fail
//@ drives: (reachability witness) utf8_code
//@ bound: as c16_utf8_code_arbitrary_bytes
#[kani::proof]
#[kani::unwind(10)]
fn c16_vacuity_twin() {
    let bytes: [u8; 8] = kani::any();
    let r = utf8_code::<(_, nom::error::ErrorKind)>(&bytes[..3]);
    kani::assume(r.is_ok());
    assert!(false);
}

// ======================================================================== C15: the parser inverts the writer
use crate::bitsink::verif_kani::RecSink;
use crate::component::datatype::{BlockSizeSpec, ChannelAssignment, FrameHeader, SampleRateSpec, SampleSizeSpec};
use crate::component::Decode;

fn rec_bytes(s: &RecSink) -> [u8; 64] {
    let mut out = [0u8; 64];
    let mut i = 0;
    while i < 8 {
        let b = s.words[i].to_be_bytes();
        let mut j = 0;
        while j < 8 {
            out[i * 8 + j] = b[j];
            j += 1;
        }
        i += 1;
    }
    out
}

//@ prop: C15
//@ drives: StreamInfo::write -> parser::stream_info, StreamInfo::new, set_total_samples, set_md5_digest, set_block_sizes, set_frame_sizes
//@ bound: every STREAMINFO a finished stream of this encoder can carry: rate <= 96000, 1..=8 channels, width 8..=25 (4n or 4n+1), block sizes min <= max <= 32767, frame sizes min <= max < 2^24, total samples < 2^36, arbitrary digest
//@ asserts: the parser consumes exactly the 34 bytes and returns a STREAMINFO equal to the original in every field; re-serialising it gives the same bytes
//@ stubs: alloc::fmt::format -> empty string
#[kani::proof]
#[kani::unwind(20)]
#[kani::stub(alloc::fmt::format, fmt_stub)]
fn c15_stream_info_roundtrip() {
    let info = gen::any_stream_info_fields();
    kani::assume(info.sample_rate() <= 96_000);
    kani::assume(info.bits_per_sample() >= 8 && info.bits_per_sample() <= 25 && info.bits_per_sample() % 4 <= 1);
    kani::assume(info.min_block_size() <= info.max_block_size() && info.max_block_size() <= 32767);
    kani::assume(info.min_frame_size() <= info.max_frame_size());
    let mut sink = RecSink::new(usize::MAX);
    let w = info.write(&mut sink);
    assert!(w.is_ok());
    std::mem::forget(w);
    let bytes = rec_bytes(&sink);
    match stream_info::<(_, nom::error::ErrorKind)>(&bytes[..34]) {
        Ok((rest, p)) => {
            assert!(rest.is_empty());
            assert!(p == info);
            let mut sink2 = RecSink::new(usize::MAX);
            let w = p.write(&mut sink2);
            assert!(w.is_ok());
            std::mem::forget(w);
            assert!(sink2.is_prefix_of(&sink) && sink.is_prefix_of(&sink2));
            kani::cover!(p.channels() == 8 && p.total_samples() > (1 << 35));
        }
        Err(e) => {
            std::mem::forget(e);
            assert!(false);
        }
    }
}

fn const_verbatim_roundtrip<const BPS: u8>() -> bool {
    let mut sink = RecSink::new(usize::MAX);
    if kani::any() {
        let c = crate::component::Constant::from_parts(16, gen::any_sample(BPS), BPS);
        assert!(c.write(&mut sink).is_ok());
        let bytes = rec_bytes(&sink);
        let out = match constant::<(_, nom::error::ErrorKind)>(16, BPS as usize)((&bytes[..], 0)) {
            Ok(((rest, off), p)) => {
                assert!((bytes.len() - rest.len()) * 8 + off == sink.len);
                assert!(p.dc_offset() == c.dc_offset() && p.block_size() == 16 && p.bits_per_sample() == BPS as usize);
                assert!(p.count_bits() == sink.len);
                c.dc_offset() < 0
            }
            Err(_) => {
                assert!(false);
                false
            }
        };
        out
    } else {
        let v = gen::any_verbatim_of::<2>(BPS);
        assert!(v.write(&mut sink).is_ok());
        let bytes = rec_bytes(&sink);
        let out = match verbatim::<(_, nom::error::ErrorKind)>(2, BPS as usize)((&bytes[..], 0)) {
            Ok(((rest, off), p)) => {
                assert!((bytes.len() - rest.len()) * 8 + off == sink.len);
                assert!(p.samples().len() == 2 && p.samples()[0] == v.samples()[0] && p.samples()[1] == v.samples()[1]);
                assert!(p.bits_per_sample() == BPS as usize);
                let c = v.samples()[1] < 0;
                std::mem::forget(p);
                std::mem::forget(v);
                c
            }
            Err(_) => {
                assert!(false);
                false
            }
        };
        out
    }
}

//@ prop: C15
//@ drives: Constant::write -> parser::constant, Verbatim::write -> parser::verbatim, parser::subframe_header, parser::raw_samples, parser::u_to_i
//@ bound: constant subframe (block 16) and verbatim subframe of 2 samples at widths 8, 13 and 24 bits; every sample value of the width
//@ asserts: the parser consumes exactly the bits written and returns a component equal to the original in every field (sign included); its count_bits() equals the bits consumed
#[kani::proof]
#[kani::unwind(12)]
fn c15_constant_verbatim_roundtrip() {
    let sel: u8 = kani::any();
    let c = match sel {
        0 => const_verbatim_roundtrip::<8>(),
        1 => const_verbatim_roundtrip::<13>(),
        _ => const_verbatim_roundtrip::<24>(),
    };
    kani::cover!(c && sel == 1);
}

fn header_roundtrip(bs: BlockSizeSpec, ca: ChannelAssignment, ss: SampleSizeSpec, sr: SampleRateSpec, off: FrameOffset) {
    let mut h = FrameHeader::from_specs(bs, ca, ss, sr);
    h.set_frame_offset(off);
    let mut sink = RecSink::new(usize::MAX);
    let r = h.write(&mut sink);
    let ok = r.is_ok();
    std::mem::forget(r);
    assert!(ok);
    let bytes = rec_bytes(&sink);
    let n = sink.len / 8;
    match frame_header::<(_, nom::error::ErrorKind)>(true)(&bytes[..n]) {
        Ok((rest, p)) => {
            assert!(rest.is_empty());
            assert!(p.block_size_spec() == h.block_size_spec());
            assert!(p.sample_rate_spec() == h.sample_rate_spec() && p.sample_size_spec() == h.sample_size_spec());
            assert!(p.channel_assignment() == h.channel_assignment());
            assert!(p.is_variable_blocking() == h.is_variable_blocking());
            if h.is_variable_blocking() {
                assert!(p.start_sample_number() == h.start_sample_number());
            } else {
                assert!(p.frame_number() == h.frame_number());
            }
            assert!(p.count_bits() == sink.len);
            std::mem::forget(p);
        }
        Err(e) => {
            std::mem::forget(e);
            assert!(false);
        }
    }
    std::mem::forget(h);
}

//@ prop: C15
//@ rotate: hdrrt
//@ drives: FrameHeader::write -> parser::frame_header(check_crc = true), parser::utf8_code, parser::block_size_code, parser::sample_rate_code
//@ bound: concrete headers: {4097 samples via 16-bit extra, 16001 Hz via Hz code, 24 bit, mid-side, frame 2^31-1}, {17 samples via 8-bit extra, 95.8 kHz via daHz code, 8 bit, mono, frame 128}
//@ asserts: the parser accepts the bytes (CRC-8 verified), consumes all of them and returns a header equal in every field; its count_bits() equals the bytes consumed
//@ stubs: alloc::fmt::format -> empty string
#[kani::proof]
#[kani::unwind(18)]
#[kani::stub(alloc::fmt::format, fmt_stub)]
fn c15_frame_header_roundtrip_a() {
    header_roundtrip(BlockSizeSpec::from_size(4097), ChannelAssignment::MidSide, SampleSizeSpec::B24, SampleRateSpec::Hz(16001), FrameOffset::Frame(0x7FFF_FFFF));
    header_roundtrip(BlockSizeSpec::from_size(17), ChannelAssignment::Independent(1), SampleSizeSpec::B8, SampleRateSpec::DaHz(9580), FrameOffset::Frame(128));
    kani::cover!(true);
}

//@ prop: C15
//@ rotate: hdrrt
//@ drives: FrameHeader::write -> parser::frame_header(check_crc = true)
//@ bound: concrete headers: {192 samples, 8 channels, 12 bit, 96 kHz, frame 2048}, {1152 samples, left-side, 20 bit, 7 kHz via kHz code, start sample 2^36-1 (variable blocking)}
//@ asserts: as c15_frame_header_roundtrip_a
//@ stubs: alloc::fmt::format -> empty string
#[kani::proof]
#[kani::unwind(18)]
#[kani::stub(alloc::fmt::format, fmt_stub)]
fn c15_frame_header_roundtrip_b() {
    header_roundtrip(BlockSizeSpec::from_size(192), ChannelAssignment::Independent(8), SampleSizeSpec::B12, SampleRateSpec::R96kHz, FrameOffset::Frame(2048));
    header_roundtrip(BlockSizeSpec::from_size(1152), ChannelAssignment::LeftSide, SampleSizeSpec::B20, SampleRateSpec::KHz(7), FrameOffset::StartSample((1u64 << 36) - 1));
    kani::cover!(true);
}

fn residual_roundtrip<const B: usize, const PO: u8, const NP: usize>() -> bool {
    let warmup: usize = kani::any();
    kani::assume(warmup <= B / NP && warmup <= 2);
    let r = gen::any_residual::<B, PO, NP>(warmup, 2);
    let mut sink = RecSink::new(usize::MAX);
    let w = r.write(&mut sink);
    assert!(w.is_ok());
    std::mem::forget(w);
    let bytes = rec_bytes(&sink);
    let out = match residual::<(_, nom::error::ErrorKind)>(B, warmup)((&bytes[..], 0)) {
        Ok(((rest, off), p)) => {
            assert!((bytes.len() - rest.len()) * 8 + off == sink.len);
            assert!(p.partition_order() == PO as usize && p.count_bits() == sink.len);
            let mut t = 0;
            while t < B {
                assert!(p.quotients()[t] == r.quotients()[t] && p.remainders()[t] == r.remainders()[t]);
                assert!(p.residual(t) == r.residual(t));
                t += 1;
            }
            let mut q = 0;
            while q < NP {
                assert!(p.rice_params()[q] == r.rice_params()[q]);
                q += 1;
            }
            let c = r.rice_params()[0] == 14;
            std::mem::forget(p);
            std::mem::forget(r);
            c
        }
        Err(_) => {
            assert!(false);
            false
        }
    };
    out
}

//@ prop: C15
//@ tier: thorough
//@ drives: Residual::write -> parser::residual, parser::unary_code
//@ bound: block 4 with 1 or 2 partitions, warm-up 0..=2, parameters 0..=14, quotients 0..=2
//@ asserts: the parser consumes exactly the bits written and returns a residual equal in order, parameters, quotients, remainders and decoded values; its count_bits() equals the bits consumed
#[kani::proof]
#[kani::unwind(70)]
fn c15_residual_roundtrip() {
    let c = if kani::any() { residual_roundtrip::<4, 0, 1>() } else { residual_roundtrip::<4, 1, 2>() };
    kani::cover!(c);
}

//@ prop: C15
//@ expect: fail
//@ drives: (reachability witness) constant round trip
//@ bound: as c15_constant_verbatim_roundtrip
#[kani::proof]
#[kani::unwind(12)]
fn c15_vacuity_twin() {
    let _ = const_verbatim_roundtrip::<13>();
    assert!(false);
}
