//@file-needs: component/datatype.rs
// Harnesses for the decoder side of C15 (the parsed component tree "decodes to exactly the
// original samples"): `Decode` for residuals, fixed and LPC subframes and the stereo
// un-mixing of `Frame`, each against the RFC 9639 reconstruction written out here in 64-bit
// arithmetic.  Child module of `component::decode` (feature `decode`).

use super::*;
use crate::component::datatype::verif_kani as gen;

pub(crate) fn fmt_stub(_args: std::fmt::Arguments<'_>) -> String {
    String::new()
}

/// RFC 9639 zig-zag inverse.
fn unfold(u: u32) -> i64 {
    if u & 1 == 0 { (u >> 1) as i64 } else { -((u >> 1) as i64) - 1 }
}

/// Residual of B samples in one partition with parameter P, symbolic quotients (< 4) and
/// remainders; returns the residual and its RFC values.
fn sym_residual<const B: usize>(p: u8, warmup: usize) -> (Residual, [i64; B]) {
    let mut qs: [u32; B] = kani::any();
    let mut rs: [u32; B] = kani::any();
    let mut vals = [0i64; B];
    let mut t = 0;
    while t < B {
        if t < warmup {
            qs[t] = 0;
            rs[t] = 0;
        } else {
            kani::assume(qs[t] < 4);
            kani::assume(rs[t] < (1u32 << p));
        }
        vals[t] = unfold((qs[t] << p) + rs[t]);
        t += 1;
    }
    (gen::residual_from_arrays::<B, 0, 1>([p], qs, rs, warmup), vals)
}

fn lpc_decode_case<const K: usize>(coefs: [i16; K]) -> bool {
    const B: usize = 4;
    let shift: i8 = kani::any();
    kani::assume(shift >= 0 && shift <= 15);
    let mut warm = [0i32; K];
    let mut i = 0;
    while i < K {
        let v: i32 = kani::any();
        kani::assume(v >= -(1 << 24) && v < (1 << 24));
        warm[i] = v;
        i += 1;
    }
    let (res, vals) = sym_residual::<B>(14, K);
    // RFC 9639 9.2.6: sample[t] = residual[t] + (sum coef_j * sample[t-1-j] >> shift), 64-bit
    let mut want = [0i64; B];
    let mut t = 0;
    while t < B {
        if t < K {
            want[t] = warm[t] as i64;
        } else {
            let mut acc: i64 = 0;
            let mut j = 0;
            while j < K {
                acc += coefs[j] as i64 * want[t - 1 - j];
                j += 1;
            }
            want[t] = vals[t] + (acc >> shift);
            // a valid stream decodes to samples of the declared width (25 bits at most)
            kani::assume(want[t] >= -(1 << 24) && want[t] < (1 << 24));
        }
        t += 1;
    }
    let lpc = gen::lpc_from::<K>(warm, coefs, shift, 15, res, 25);
    let mut dest = [0x5A5A5A5Ai32; B];
    lpc.copy_signal(&mut dest);
    assert!(lpc.signal_len() == B);
    let mut t = 0;
    let mut big = false;
    while t < B {
        assert!(dest[t] as i64 == want[t]);
        t += 1;
    }
    if K >= 1 {
        let p = coefs[0] as i64 * want[K - 1];
        big = p >= (1i64 << 31) || p < -(1i64 << 31);
    }
    std::mem::forget(lpc);
    big
}

//@ prop: C15
//@ also: C01
//@ drives: Decode for Lpc (decode::decode_lpc::<i16>: 64-bit prediction, shift, truncation), Decode for Residual (zig-zag inverse of quotient<<parameter + remainder)
//@ bound: block of 4 samples, order 2 with the extreme 15-bit coefficients (16383, -16384) (concrete: symbolic x symbolic products stall SAT), every shift 0..=15, every 25-bit warm-up sample, residuals with Rice parameter 14, quotients < 4 and every remainder; predictions beyond 32 bits are reachable and witnessed
//@ assumes: the reconstructed samples fit the declared width (25 bits), as in every stream the encoder emits
//@ asserts: the decoded block equals the RFC 9639 reconstruction computed in 64-bit arithmetic, sample by sample
//@ stubs: alloc::fmt::format -> empty string
#[kani::proof]
#[kani::unwind(8)]
#[kani::stub(alloc::fmt::format, fmt_stub)]
fn c15_decode_lpc_order2_extreme_coefficients() {
    let c = lpc_decode_case::<2>([16383, -16384]);
    kani::cover!(c);
}

//@ prop: C15
//@ also: C01
//@ drives: Decode for Lpc (decode::decode_lpc::<i16>), Decode for Residual
//@ bound: as c15_decode_lpc_order2_extreme_coefficients with order 1, coefficient -16384
//@ assumes: the reconstructed samples fit the declared width (25 bits)
//@ asserts: as c15_decode_lpc_order2_extreme_coefficients
//@ stubs: alloc::fmt::format -> empty string
#[kani::proof]
#[kani::unwind(8)]
#[kani::stub(alloc::fmt::format, fmt_stub)]
fn c15_decode_lpc_order1() {
    let c = lpc_decode_case::<1>([-16384]);
    kani::cover!(c);
}

fn fixed_decode_case<const K: usize>() -> bool {
    const B: usize = 6;
    let mut warm = [0i32; K];
    let mut i = 0;
    while i < K {
        let v: i32 = kani::any();
        kani::assume(v >= -(1 << 24) && v < (1 << 24));
        warm[i] = v;
        i += 1;
    }
    let (res, vals) = sym_residual::<B>(14, K);
    // RFC 9639 9.2.5 fixed predictors
    let mut want = [0i64; B];
    let mut t = 0;
    while t < B {
        if t < K {
            want[t] = warm[t] as i64;
        } else {
            let x = |d: usize| want[t - d];
            let pred = match K {
                0 => 0,
                1 => x(1),
                2 => 2 * x(1) - x(2),
                3 => 3 * x(1) - 3 * x(2) + x(3),
                _ => 4 * x(1) - 6 * x(2) + 4 * x(3) - x(4),
            };
            want[t] = vals[t] + pred;
            kani::assume(want[t] >= -(1 << 24) && want[t] < (1 << 24));
        }
        t += 1;
    }
    let f = gen::fixed_from::<K>(warm, res, 25);
    let mut dest = [0x5A5A5A5Ai32; B];
    f.copy_signal(&mut dest);
    assert!(f.signal_len() == B);
    let mut t = 0;
    while t < B {
        assert!(dest[t] as i64 == want[t]);
        t += 1;
    }
    let c = want[B - 1] < 0;
    std::mem::forget(f);
    c
}

//@ prop: C15
//@ also: C01
//@ drives: Decode for FixedLpc (FIXED_LPC_COEFS, decode::decode_lpc::<i32>), Decode for Residual
//@ bound: block of 6 samples, predictor orders 2 and 4 (symbolic choice; concrete per path), every 25-bit warm-up sample, residuals with Rice parameter 14, quotients < 4, every remainder
//@ assumes: the reconstructed samples fit the declared width (25 bits)
//@ asserts: the decoded block equals the RFC 9639 fixed-predictor reconstruction
//@ stubs: alloc::fmt::format -> empty string
#[kani::proof]
#[kani::unwind(10)]
#[kani::stub(alloc::fmt::format, fmt_stub)]
fn c15_decode_fixed_orders() {
    let c = if kani::any() { fixed_decode_case::<2>() } else { fixed_decode_case::<4>() };
    kani::cover!(c);
}

fn stereo_decode_case(assignment: ChannelAssignment) -> bool {
    // two verbatim subframes of 2 samples: channel 0 / channel 1 as stored
    let a: [i32; 2] = kani::any();
    let b: [i32; 2] = kani::any();
    let mut t = 0;
    while t < 2 {
        kani::assume(a[t] >= -(1 << 24) && a[t] < (1 << 24));
        kani::assume(b[t] >= -(1 << 24) && b[t] < (1 << 24));
        t += 1;
    }
    let mut h = FrameHeader::from_specs(BlockSizeSpec::from_size(2), assignment.clone(), SampleSizeSpec::B24, SampleRateSpec::R44_1kHz);
    h.set_frame_offset(FrameOffset::Frame(0));
    let mut subs = Vec::with_capacity(2);
    subs.push(SubFrame::Verbatim(Verbatim::from_samples(&a, 24)));
    subs.push(SubFrame::Verbatim(Verbatim::from_samples(&b, 25)));
    let f = gen::frame_of(h, subs);
    assert!(f.signal_len() == 4);
    let mut dest = [0x5A5A5A5Ai32; 4];
    f.copy_signal(&mut dest);
    let mut t = 0;
    let mut c = false;
    while t < 2 {
        let (x, y) = (a[t] as i64, b[t] as i64);
        // RFC 9639 4.2 / 9.1.3: (left, right) from the stored pair
        let (l, r) = match assignment {
            ChannelAssignment::Independent(_) => (x, y),
            ChannelAssignment::LeftSide => (x, x - y),
            ChannelAssignment::RightSide => (x + y, y),
            ChannelAssignment::MidSide => {
                let mid = (x << 1) | (y & 1);
                ((mid + y) >> 1, (mid - y) >> 1)
            }
        };
        assert!(dest[2 * t] as i64 == l);
        assert!(dest[2 * t + 1] as i64 == r);
        c = c || (y & 1 == 1 && x < 0);
        t += 1;
    }
    std::mem::forget(f);
    c
}

// NOTE (measured, round 3): harnesses on `Decode for Frame` (stereo un-mixing) exhaust 12 GB in
// 4-8 min even for 2-sample verbatim frames and one channel assignment per harness: the
// subframes are read back from a Vec<SubFrame>, so every subframe decoder and a symbolic-size
// allocation are explored.  The un-mixing arithmetic of the *decoder* stays outside the solver
// verdict (DESIGN.md 10.4); the encoder-side transform is decided by c09_stereo_choice_is_minimum.
