//@file-needs: coding.rs, component.rs, component/datatype.rs, source.rs
// Harnesses for the argument checks of the multi-thread stream-level entry point (C17).
// Child module of `flacenc::par`.  Only the sequential prologue of
// `par::encode_with_fixed_block_size` (before any thread is started) is inside the claim: Kani
// has no thread model.

use super::*;

pub(crate) fn fmt_stub(_args: std::fmt::Arguments<'_>) -> String {
    String::new()
}

/// A mono 16-bit source with no samples (never read: the calls under test must fail before).
struct EmptySource;
impl crate::source::Source for EmptySource {
    fn channels(&self) -> usize { 1 }
    fn bits_per_sample(&self) -> usize { 16 }
    fn sample_rate(&self) -> usize { 44100 }
    fn read_samples<F: crate::source::Fill>(&mut self, _block_size: usize, _dest: &mut F) -> Result<usize, crate::error::SourceError> {
        Ok(0)
    }
}

// Everything that touches channels or threads is cut off by a stub that FAILS when reached:
// the harness claims only the paths that return before them.
fn feed_stub<T: Source, C: Fill>(
    _src: T,
    _block_size: usize,
    _worker_count: usize,
    _parbuf: &ParFrameBuf,
    _context: C,
) -> Result<(FeedStats, C), SourceError> {
    panic!("outside the model: feeder reached")
}
fn worker_count_stub(_config: &config::Encoder) -> Result<usize, SourceError> {
    // environment / hardware dependent: any worker count >= 1 (the real function reads
    // available_parallelism and an environment variable, which CBMC cannot follow)
    let n: usize = kani::any();
    kani::assume(n >= 1 && n <= 64);
    Ok(n)
}
/// `ParFrameBuf::new` up to its first `FrameBuf::with_size(channels, block_size)?` (replicas >= 1
/// because the worker count is >= 1): the real block-size validation; everything after it
/// (channels, queues) is outside the model and must not be reached by an invalid block size.
fn parframebuf_new_stub(_replicas: usize, channels: usize, block_size: usize) -> Result<ParFrameBuf, VerifyError> {
    match FrameBuf::with_size(channels, block_size) {
        Err(e) => Err(e),
        Ok(b) => {
            std::mem::forget(b);
            panic!("outside the model: ParFrameBuf::new accepted an invalid block size")
        }
    }
}
fn parcontext_new_stub(_inner: Context) -> ParContext {
    panic!("outside the model")
}
fn parcontext_request_stop_stub(_this: &ParContext) -> usize {
    panic!("outside the model")
}
fn parcontext_finalize_stub(_this: ParContext) -> Context {
    panic!("outside the model")
}

//@ prop: C17
//@ drives: par::encode_with_fixed_block_size (the sequential prologue: Stream::new, StreamInfo::set_block_sizes, and whatever validates the block-size ARGUMENT before worker threads are started)
//@ bound: every block-size argument outside 32..=32767 (free usize: 0, 31, 32768, 65535, 65536, 2^32+k, usize::MAX are all in the query), a valid mono 16-bit source, the default (verified) configuration; the thread-starting remainder of the function is not reached by these arguments
//@ asserts: the call returns Err - it does not panic (the single-thread entry point returns Err(Config) for the same arguments: c17_stream_entry_block_size_argument)
//@ stubs: alloc::fmt::format -> empty string; determine_worker_count -> any count in 1..=64; ParFrameBuf::new -> its first FrameBuf::with_size(channels, block_size)? (the real validation), failing if reached further; feed_fixed_block_size, ParContext::{new, request_stop, finalize}, thread::spawn/join -> assertion failure when reached (threads and channels are outside the model; the shadow crate replaces `use std::thread` by a model module under cfg(kani))
//@ oracle: c17_oracle_par_block_size_argument
#[kani::proof]
#[kani::unwind(8)]
#[kani::stub(alloc::fmt::format, fmt_stub)]
#[kani::stub(super::feed_fixed_block_size, feed_stub)]
#[kani::stub(super::determine_worker_count, worker_count_stub)]
#[kani::stub(super::ParFrameBuf::new, parframebuf_new_stub)]
#[kani::stub(super::ParContext::new, parcontext_new_stub)]
#[kani::stub(super::ParContext::request_stop, parcontext_request_stop_stub)]
#[kani::stub(super::ParContext::finalize, parcontext_finalize_stub)]
fn c17_par_stream_entry_block_size_argument() {
    let cfg = config::Encoder::default();
    let cfg = match crate::error::Verify::into_verified(cfg) {
        Ok(c) => c,
        Err(e) => {
            std::mem::forget(e);
            assert!(false);
            return;
        }
    };
    let bs: usize = kani::any();
    kani::assume(bs < 32 || bs > 32767);
    let r = encode_with_fixed_block_size(&cfg, EmptySource, bs);
    let is_err = r.is_err();
    std::mem::forget(r);
    std::mem::forget(cfg);
    assert!(is_err);
    kani::cover!(bs == 40000);
}
