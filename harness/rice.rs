// Harnesses for C13 (Rice partitioning is cost-optimal), as a chain of function contracts
// (DESIGN.md section 5, C13).  Child module of `flacenc::rice`.
//
// Cost model being verified.  For a partition with zig-zag errors e_0..e_{n-1} and Rice
// parameter p the coded size is  sum(e_i >> p) + n*(p+1) + 4  bits.  A `PrcBitTable` lane
// holds that cost "exactly or saturated":   lane[p] == min(cost_p, 2^28 - 1).
// L1 from_errors establishes it, L2 merge preserves it for the union of two partitions
// sharing one parameter, L3 minimizer returns an admissible argmin of the lanes, L4/L5 lift
// that to slices of tables, L6 the search-space definition, L7 the search loop itself
// (from_errors stubbed by arbitrary tables), L8 links the cost to the real bit count.

use super::*;

const SAT: u64 = (1u64 << 28) - 1;

fn any_table() -> PrcBitTable {
    // invariant: every lane within 4..=2^28-1 (each table carries its 4-bit parameter header)
    let a: [u32; 16] = kani::any();
    let mut i = 0;
    while i < 16 {
        kani::assume(a[i] >= 4 && a[i] as u64 <= SAT);
        i += 1;
    }
    PrcBitTable { p_to_bits: simd::u32x16::from_array(a) }
}

fn from_errors_lane<const N: usize>() {
    let e: [u32; N] = kani::any();
    let t = PrcBitTable::from_errors(&e, 4);
    // one arbitrary lane per query (the 16 lanes are independent computations)
    let p: usize = kani::any();
    kani::assume(p < 16);
    let mut cost: u64 = 4 + (N as u64) * (p as u64 + 1);
    let mut i = 0;
    while i < N {
        cost += (e[i] >> p) as u64;
        i += 1;
    }
    let want = if cost < SAT { cost } else { SAT };
    assert!(t.p_to_bits[p] as u64 == want);
    kani::cover!(e[N - 1] > (1 << 29) && p == 14 && cost < SAT);
    kani::cover!(p == 0 && cost > (1u64 << 32));
}
macro_rules! from_errors_harness {
    ($name:ident, $n:expr, $unwind:expr) => {
        #[kani::proof]
        #[kani::unwind($unwind)]
        fn $name() {
            from_errors_lane::<$n>();
        }
    };
}
//@ prop: C13
//@ drives: PrcBitTable::from_errors (repeat!/repeat_while unrolled accumulation, per-chunk clamp)
//@ bound: partition of 1 error, every error value in 0..2^32 (zig-zag of any i32 residual), arbitrary lane p in 0..=15
//@ asserts: lane p equals min(sum(e>>p) + n*(p+1) + 4, 2^28-1) computed in 64-bit arithmetic (exact or saturated, never wrapped)
from_errors_harness!(c13_l1_from_errors_n1, 1, 20);
//@ prop: C13
//@ drives: PrcBitTable::from_errors
//@ bound: partition of 2 errors (two values >= 2^31 would wrap an unclamped 32-bit lane), every error value, arbitrary lane
//@ asserts: as c13_l1_from_errors_n1
from_errors_harness!(c13_l1_from_errors_n2, 2, 20);
//@ prop: C13
//@ drives: PrcBitTable::from_errors
//@ bound: partition of 4 errors, every error value, arbitrary lane
//@ asserts: as c13_l1_from_errors_n1
from_errors_harness!(c13_l1_from_errors_n4, 4, 20);
//@ prop: C13
//@ tier: thorough
//@ drives: PrcBitTable::from_errors
//@ bound: partition of 8 errors (one accumulation chunk), every error value, arbitrary lane (measured 316 s)
//@ asserts: as c13_l1_from_errors_n1
from_errors_harness!(c13_l1_from_errors_n8, 8, 20);
//@ prop: C13
//@ tier: thorough
//@ drives: PrcBitTable::from_errors
//@ bound: partition of 9 errors (chunk + 1), every error value, arbitrary lane (measured 364 s)
//@ asserts: as c13_l1_from_errors_n1
from_errors_harness!(c13_l1_from_errors_n9, 9, 20);
//@ prop: C13
//@ tier: thorough
//@ drives: PrcBitTable::from_errors
//@ bound: partition of 17 errors (chunks + 1), every error value, arbitrary lane (did not finish in 600 s when measured: reported undecided if it times out)
//@ asserts: as c13_l1_from_errors_n1
from_errors_harness!(c13_l1_from_errors_n17, 17, 20);
//@ prop: C13
//@ tier: thorough
//@ drives: PrcBitTable::from_errors
//@ bound: partition of 16 errors, every error value, arbitrary lane
//@ asserts: as c13_l1_from_errors_n1
from_errors_harness!(c13_l1_from_errors_n16, 16, 20);
//@ prop: C13
//@ tier: thorough
//@ drives: PrcBitTable::from_errors
//@ bound: partition of 33 errors, every error value, arbitrary lane
//@ asserts: as c13_l1_from_errors_n1
from_errors_harness!(c13_l1_from_errors_n33, 33, 36);
//@ prop: C13
//@ tier: thorough
//@ drives: PrcBitTable::from_errors
//@ bound: partition of 64 errors (the smallest real partition), every error value, arbitrary lane
//@ asserts: as c13_l1_from_errors_n1
from_errors_harness!(c13_l1_from_errors_n64, 64, 68);

//@ prop: C13
//@ drives: PrcBitTable::from_errors on an empty partition (first partition fully covered by warm-up)
//@ bound: n = 0
//@ asserts: every lane equals the 4-bit header cost
#[kani::proof]
#[kani::unwind(18)]
fn c13_l1_from_errors_empty() {
    let e: [u32; 1] = kani::any();
    let t = PrcBitTable::from_errors(&e[..0], 4);
    let mut p = 0;
    while p < 16 {
        assert!(t.p_to_bits[p] == 4);
        p += 1;
    }
    kani::cover!(true);
}

//@ prop: C13
//@ drives: PrcBitTable::merge
//@ bound: two arbitrary tables satisfying the lane invariant (4 <= lane <= 2^28-1), all 16 lanes
//@ asserts: merged lane == min(a + b - 4, 2^28-1): the exact cost of the union when it is below 2^28-1, saturated otherwise (a saturated input stays saturated); invariant preserved
#[kani::proof]
#[kani::unwind(18)]
fn c13_l2_merge_saturates() {
    let a = any_table();
    let b = any_table();
    let m = a.merge(&b, 4);
    let mut p = 0;
    while p < 16 {
        let sum = a.p_to_bits[p] as u64 + b.p_to_bits[p] as u64 - 4;
        let want = if sum < SAT { sum } else { SAT };
        assert!(m.p_to_bits[p] as u64 == want);
        p += 1;
    }
    kani::cover!(a.p_to_bits[3] as u64 == SAT && b.p_to_bits[3] == 4);
    kani::cover!(a.p_to_bits[0] > (1 << 27) && b.p_to_bits[0] > (1 << 27));
}

//@ prop: C13
//@ also: C02 C09
//@ drives: PrcBitTable::minimizer
//@ bound: arbitrary table with lanes <= 2^28-1, every max_p in 0..=14
//@ asserts: the returned parameter is admissible (<= max_p), the returned cost is its lane, and no admissible parameter has a smaller lane (ties may resolve either way)
#[kani::proof]
#[kani::unwind(18)]
fn c13_l3_minimizer_argmin() {
    let t = any_table();
    let max_p: usize = kani::any();
    kani::assume(max_p <= 14);
    let (p, bits) = t.minimizer(max_p);
    assert!(p <= max_p);
    assert!(bits == t.p_to_bits[p] as usize);
    let mut q = 0;
    while q < 15 {
        if q <= max_p {
            assert!(t.p_to_bits[q] as usize >= bits);
        }
        q += 1;
    }
    kani::cover!(p == 7 && max_p == 9);
    kani::cover!(bits as u64 == SAT);
}

//@ prop: C13
//@ drives: eval_partitions, merge_partitions
//@ bound: 2 arbitrary tables (partition order 1 -> 0), every max_p in 0..=14
//@ asserts: eval_partitions returns the sum of the per-table minima and writes each argmin; merge_partitions halves the table list with tables[0] = merge(tables[0], tables[1])
#[kani::proof]
#[kani::unwind(18)]
fn c13_l45_eval_and_merge_two() {
    let mut tables = [any_table(), any_table()];
    let orig = [PrcBitTable { p_to_bits: tables[0].p_to_bits }, PrcBitTable { p_to_bits: tables[1].p_to_bits }];
    let max_p: usize = kani::any();
    kani::assume(max_p <= 14);
    let mut ps = [99usize; 3];
    let total = eval_partitions(&tables, &mut ps, max_p);
    let (p0, b0) = orig[0].minimizer(max_p);
    let (p1, b1) = orig[1].minimizer(max_p);
    assert!(ps[0] == p0 && ps[1] == p1 && ps[2] == 99);
    assert!(total == b0 + b1);
    let k = merge_partitions(&mut tables);
    assert!(k == 1);
    let m0 = orig[0].merge(&orig[1], 4);
    let mut l = 0;
    while l < 16 {
        assert!(tables[0].p_to_bits[l] == m0.p_to_bits[l]);
        l += 1;
    }
    kani::cover!(total > 1000 && p0 != p1);
}

//@ prop: C13
//@ tier: thorough
//@ drives: eval_partitions, merge_partitions
//@ bound: 4 arbitrary tables (partition order 2 -> 1), every max_p in 0..=14
//@ asserts: eval_partitions returns the sum of the per-table minima and writes each argmin; merge_partitions halves the table list with tables[i] = merge(tables[2i], tables[2i+1])
#[kani::proof]
#[kani::unwind(18)]
fn c13_l45_eval_and_merge_partitions() {
    let mut tables = [any_table(), any_table(), any_table(), any_table()];
    let orig = [
        PrcBitTable { p_to_bits: tables[0].p_to_bits },
        PrcBitTable { p_to_bits: tables[1].p_to_bits },
        PrcBitTable { p_to_bits: tables[2].p_to_bits },
        PrcBitTable { p_to_bits: tables[3].p_to_bits },
    ];
    let max_p: usize = kani::any();
    kani::assume(max_p <= 14);
    let mut ps = [99usize; 5];
    let total = eval_partitions(&tables, &mut ps, max_p);
    let mut want = 0usize;
    let mut i = 0;
    while i < 4 {
        let (p, b) = orig[i].minimizer(max_p);
        assert!(ps[i] == p);
        want += b;
        i += 1;
    }
    assert!(total == want);
    assert!(ps[4] == 99);
    let k = merge_partitions(&mut tables);
    assert!(k == 2);
    let m0 = orig[0].merge(&orig[1], 4);
    let m1 = orig[2].merge(&orig[3], 4);
    let mut l = 0;
    while l < 16 {
        assert!(tables[0].p_to_bits[l] == m0.p_to_bits[l]);
        assert!(tables[1].p_to_bits[l] == m1.p_to_bits[l]);
        l += 1;
    }
    kani::cover!(total > 1000);
}

//@ prop: C13
//@ also: C02
//@ drives: finest_partition_order
//@ bound: every block size and minimum partition size with 64 <= min <= size <= 65535 in one query
//@ assumes: size >= min_part_size (caller guard `too_short` in coding::encode_subframe)
//@ asserts: the returned order o satisfies o <= 15 (RFC limit), 2^o divides the block size, the partition length is >= the minimum (or o == 0), and o is maximal with these properties
#[kani::proof]
#[kani::unwind(18)]
fn c13_l6_finest_partition_order() {
    let size: usize = kani::any();
    let minp: usize = kani::any();
    kani::assume(size >= 1 && size <= 65535);
    kani::assume(minp >= 64 && minp <= 32767);
    // caller guard: prediction (and with it this function) is only reached for blocks of at least
    // MIN_BLOCK_SIZE_FOR_PREDICTION = 64 samples and min_part = max(64, warm-up <= 32) = 64; blocks
    // shorter than the minimum partition are outside the precondition (the subtraction at
    // rice.rs:125 would underflow there; not reachable through the public API)
    kani::assume(size >= minp);
    let o = finest_partition_order(size, minp);
    assert!(o <= 15);
    assert!(size % (1usize << o) == 0);
    assert!(o == 0 || (size >> o) >= minp);
    // maximality
    if o < 15 {
        let o1 = o + 1;
        assert!(size % (1usize << o1) != 0 || (size >> o1) < minp);
    }
    kani::cover!(o == 6 && size == 4096);
    kani::cover!(o == 0 && size == 4097);
}

//@ prop: C13
//@ drives: encode_signbit, decode_signbit
//@ bound: every i32 except i32::MIN (|residual| < 2^31)
//@ asserts: zig-zag folding is injective and inverted by decode_signbit; magnitude order preserved (0,-1,1,-2,... -> 0,1,2,3,...)
#[kani::proof]
fn c13_signbit_roundtrip() {
    let v: i32 = kani::any();
    kani::assume(v != i32::MIN);
    let e = encode_signbit(v);
    assert!(decode_signbit(e) == v);
    if v >= 0 {
        assert!(e == (v as u32) * 2);
    } else {
        assert!(e as u64 == (-(v as i64)) as u64 * 2 - 1);
    }
    kani::cover!(v == -1 && e == 1);
}

//@ prop: C13
//@ expect: fail
//@ drives: (reachability witness) minimizer
//@ bound: as c13_l3_minimizer_argmin
#[kani::proof]
#[kani::unwind(18)]
fn c13_vacuity_twin() {
    let t = any_table();
    let max_p: usize = kani::any();
    kani::assume(max_p <= 14);
    let (p, _bits) = t.minimizer(max_p);
    kani::assume(p <= max_p);
    assert!(false);
}

// ======================================================================== L7: the search loop, C10: finder reuse
static mut STUB_TABLES: [[u32; 16]; 4] = [[0; 16]; 4];
static mut STUB_CALLS: usize = 0;
fn from_errors_stub(_errors: &[u32], _offset: usize) -> PrcBitTable {
    unsafe {
        let k = STUB_CALLS;
        STUB_CALLS += 1;
        PrcBitTable { p_to_bits: simd::u32x16::from_array(STUB_TABLES[k % 4]) }
    }
}

fn min_lane(t: &[u64; 16], max_p: usize) -> u64 {
    let mut best = u64::MAX;
    let mut p = 0;
    while p < 15 {
        if p <= max_p && t[p] < best { best = t[p]; }
        p += 1;
    }
    best
}
fn sat_merge(a: &[u64; 16], b: &[u64; 16]) -> [u64; 16] {
    let mut o = [0u64; 16];
    let mut p = 0;
    while p < 16 {
        let s = a[p] + b[p] - 4;
        o[p] = if s < SAT { s } else { SAT };
        p += 1;
    }
    o
}

//@ prop: C13
//@ drives: PrcParameterFinder::find (search over partition orders), eval_partitions, merge_partitions, finest_partition_order, PrcBitTable::{minimizer, merge}
//@ bound: a 128-sample block (finest order 1: 2 partitions of 64) with warm-up 0; the two per-partition cost tables are ARBITRARY (every lane in 4..=2^28-1), every max parameter 0..=14
//@ asserts: the returned code_bits is the minimum over orders 1 and 0 of the sum of per-partition minima of the (saturating-)merged tables; the returned order attains it; exactly 2^order parameters are returned, each admissible and attaining its partition's minimum
//@ stubs: PrcBitTable::from_errors -> the arbitrary tables (its contract is c13_l1_*); the sample values are then irrelevant (zeros)
//@ oracle: c13_oracle_bruteforce_optimality
#[kani::proof]
#[kani::unwind(132)]
#[kani::stub(super::PrcBitTable::from_errors, from_errors_stub)]
fn c13_l7_find_searches_all_orders() {
    let mut raw = [[0u64; 16]; 2];
    let mut k = 0;
    while k < 2 {
        let t = any_table();
        let mut p = 0;
        while p < 16 {
            raw[k][p] = t.p_to_bits[p] as u64;
            unsafe { STUB_TABLES[k][p] = t.p_to_bits[p]; }
            p += 1;
        }
        k += 1;
    }
    unsafe { STUB_CALLS = 0; }
    let max_p: usize = kani::any();
    kani::assume(max_p <= 14);
    let signal = [0i32; 128];
    let mut finder = PrcParameterFinder::default();
    let r = finder.find(&signal, 0, max_p);
    assert!(unsafe { STUB_CALLS } == 2);
    let o1 = min_lane(&raw[0], max_p) + min_lane(&raw[1], max_p);
    let m = sat_merge(&raw[0], &raw[1]);
    let o0 = min_lane(&m, max_p);
    let best = if o1 <= o0 { o1 } else { o0 };
    assert!(r.code_bits as u64 == best);
    assert!(r.order <= 1 && r.ps.len() == 1usize << r.order);
    let attained = if r.order == 1 { o1 } else { o0 };
    assert!(attained == best);
    let mut i = 0;
    while i < 2 {
        if i < r.ps.len() {
            let p = r.ps[i] as usize;
            assert!(p <= max_p);
            let (lane, want) = if r.order == 1 { (raw[i][p], min_lane(&raw[i], max_p)) } else { (m[p], min_lane(&m, max_p)) };
            assert!(lane == want);
        }
        i += 1;
    }
    kani::cover!(r.order == 1);
    kani::cover!(r.order == 0);
    std::mem::forget(r);
    std::mem::forget(finder);
}

//@ prop: C13
//@ tier: thorough
//@ drives: PrcParameterFinder::find (three partition orders: 2 -> 1 -> 0), eval_partitions, merge_partitions
//@ bound: a 256-sample block (finest order 2: 4 partitions of 64) with warm-up 0; the four per-partition cost tables are ARBITRARY (every lane in 4..=2^28-1), every max parameter 0..=14
//@ asserts: code_bits is the minimum over orders 2, 1 and 0 (the cost need not be monotone in the order: a coarser order may win after a finer one lost); the returned order attains it and 2^order parameters are returned
//@ stubs: PrcBitTable::from_errors -> the arbitrary tables
//@ oracle: c13_oracle_bruteforce_optimality
#[kani::proof]
#[kani::unwind(260)]
#[kani::stub(super::PrcBitTable::from_errors, from_errors_stub)]
fn c13_l7_find_three_levels() {
    let mut raw = [[0u64; 16]; 4];
    let mut k = 0;
    while k < 4 {
        let t = any_table();
        let mut p = 0;
        while p < 16 {
            raw[k][p] = t.p_to_bits[p] as u64;
            unsafe { STUB_TABLES[k][p] = t.p_to_bits[p]; }
            p += 1;
        }
        k += 1;
    }
    unsafe { STUB_CALLS = 0; }
    let max_p: usize = kani::any();
    kani::assume(max_p <= 14);
    let signal = [0i32; 256];
    let mut finder = PrcParameterFinder::default();
    let r = finder.find(&signal, 0, max_p);
    assert!(unsafe { STUB_CALLS } == 4);
    let o2 = min_lane(&raw[0], max_p) + min_lane(&raw[1], max_p) + min_lane(&raw[2], max_p) + min_lane(&raw[3], max_p);
    let m01 = sat_merge(&raw[0], &raw[1]);
    let m23 = sat_merge(&raw[2], &raw[3]);
    let o1 = min_lane(&m01, max_p) + min_lane(&m23, max_p);
    let m = sat_merge(&m01, &m23);
    let o0 = min_lane(&m, max_p);
    let best = if o2 <= o1 && o2 <= o0 { o2 } else if o1 <= o0 { o1 } else { o0 };
    assert!(r.code_bits as u64 == best);
    assert!(r.order <= 2 && r.ps.len() == 1usize << r.order);
    let attained = match r.order { 2 => o2, 1 => o1, _ => o0 };
    assert!(attained == best);
    kani::cover!(r.order == 0 && o1 > o2);
    kani::cover!(r.order == 1);
    kani::cover!(r.order == 2);
    std::mem::forget(r);
    std::mem::forget(finder);
}

//@ prop: C10
//@ tier: thorough
//@ drives: PrcParameterFinder::find on a reused finder (PRC_FINDER scratch state: errors, tables, ps, min_ps)
//@ bound: a 128-sample block (2 partitions) of a fixed ramp signal, warm-up 2, max parameter 14; the finder holds arbitrary previous state: vectors of length 0, 3 or 9 with arbitrary content (what a previous call with other sizes leaves)
//@ asserts: order, parameters and code_bits equal those of a fresh finder (the result depends on the arguments only)
#[kani::proof]
#[kani::unwind(140)]
fn c10_prc_finder_reuse() {
    let mut signal = [0i32; 128];
    let mut i = 0;
    while i < 128 {
        signal[i] = (i as i32 * 37) % 101 - 50;
        i += 1;
    }
    let mut fresh = PrcParameterFinder::default();
    let want = fresh.find(&signal, 2, 14);
    fn dirty<const L: usize>() -> PrcParameterFinder {
        let e: [u32; L] = kani::any();
        let p: [usize; L] = kani::any();
        let q: [usize; L] = kani::any();
        let mut f = PrcParameterFinder::default();
        let mut i = 0;
        while i < L {
            f.errors.push(e[i]);
            f.ps.push(p[i]);
            f.min_ps.push(q[i]);
            f.tables.push(any_table());
            i += 1;
        }
        f
    }
    let sel: u8 = kani::any();
    let mut used = if sel == 0 { dirty::<0>() } else if sel == 1 { dirty::<3>() } else { dirty::<9>() };
    let got = used.find(&signal, 2, 14);
    assert!(got.order == want.order && got.code_bits == want.code_bits && got.ps.len() == want.ps.len());
    let mut i = 0;
    while i < 2 {
        if i < want.ps.len() {
            assert!(got.ps[i] == want.ps[i]);
        }
        i += 1;
    }
    kani::cover!(sel == 2);
    std::mem::forget(got);
    std::mem::forget(want);
    std::mem::forget(used);
    std::mem::forget(fresh);
}
