//@file-needs: component.rs, component/datatype.rs, source.rs
// Harnesses driven through `flacenc::coding` (C01 residual lemmas, C04 stream bounds,
// C09 selection logic, C10 scratch-buffer independence).  Child module of `coding`.

use super::*;
use crate::component::verif_kani::gen;
use crate::source::Fill;
use crate::source::MemSource;

pub(crate) fn fmt_stub(_args: std::fmt::Arguments<'_>) -> String {
    String::new()
}

// ======================================================================== C09 selection logic
// The size of a frame is decided by the comparisons in `encode_subframe` and
// `try_stereo_coding`; the candidates' contents are irrelevant.  The candidate producers
// are replaced by stubs returning subframes of ARBITRARY size (so the result holds for any
// estimator behaviour); the real selection code runs.

static mut FIXED_STUB_BITS: usize = 0;
static mut FIXED_STUB_SOME: bool = false;
static mut QLPC_STUB_BITS: usize = 0;

fn fixed_lpc_stub(_config: &config::SubFrameCoding, _signal: &[i32], bits_per_sample: u8, _baseline_bits: usize) -> Option<SubFrame> {
    unsafe {
        if FIXED_STUB_SOME {
            Some(gen::subframe_with_bits(FIXED_STUB_BITS, bits_per_sample))
        } else {
            None
        }
    }
}
fn estimated_qlpc_stub(_config: &config::SubFrameCoding, _signal: &[i32], bits_per_sample: u8) -> SubFrame {
    unsafe { gen::subframe_with_bits(QLPC_STUB_BITS, bits_per_sample) }
}

//@ prop: C09
//@ drives: coding::encode_subframe (selection among constant / fixed / LPC / verbatim candidates), Verbatim::count_bits_from_metadata, SubFrame::count_bits
//@ bound: 64-sample block (the shortest block on which prediction is attempted), bits-per-sample 8..=25, every combination of the use_constant/use_fixed/use_lpc switches, candidate sizes arbitrary in 18..2^40 bits, fixed candidate present or absent, two free sample values (constant and non-constant blocks)
//@ asserts: the chosen subframe is never larger than the verbatim coding of the block (8 + 64*bps bits) by more than 16 bits
//@ stubs: coding::fixed_lpc and coding::estimated_qlpc -> subframes of arbitrary size (over-approximates every estimator / order-selection behaviour); alloc::fmt::format -> empty string
//@ oracle: c09_oracle_noise_restricted_rice
#[kani::proof]
#[kani::unwind(70)]
#[kani::stub(alloc::fmt::format, fmt_stub)]
#[kani::stub(super::fixed_lpc, fixed_lpc_stub)]
#[kani::stub(super::estimated_qlpc, estimated_qlpc_stub)]
fn c09_subframe_selection_never_exceeds_verbatim() {
    let mut cfg = config::SubFrameCoding::default();
    cfg.use_constant = kani::any();
    cfg.use_fixed = kani::any();
    cfg.use_lpc = kani::any();
    let bps: u8 = kani::any();
    kani::assume(bps >= 8 && bps <= 25);
    let fb: usize = kani::any();
    let qb: usize = kani::any();
    kani::assume(fb < (1usize << 40) && qb < (1usize << 40));
    unsafe {
        FIXED_STUB_BITS = fb;
        FIXED_STUB_SOME = kani::any();
        QLPC_STUB_BITS = qb;
    }
    let mut samples = [0i32; 64];
    samples[3] = kani::any::<i8>() as i32;
    samples[40] = kani::any::<i8>() as i32;
    let sf = encode_subframe(&cfg, &samples, bps);
    let verbatim_bits = 8 + 64 * bps as usize;
    let bits = sf.count_bits();
    assert!(bits <= verbatim_bits + 16);
    kani::cover!(matches!(sf, SubFrame::Verbatim(_)) && unsafe { FIXED_STUB_SOME });
    kani::cover!(matches!(sf, SubFrame::FixedLpc(_)));
    kani::cover!(matches!(sf, SubFrame::Constant(_)));
    std::mem::forget(sf);
}

static mut SUB_STUB_CALLS: usize = 0;
static mut SUB_STUB_BPS: [u8; 4] = [8; 4];
static mut SUB_STUB_STATIC: [Option<SubFrame>; 4] = [None, None, None, None];
/// Stand-in for `encode_subframe`: constant subframes whose size (8 + bits) is arbitrary; call
/// order: left, right (independent frame), then mid, side.
fn encode_subframe_stub(_config: &config::SubFrameCoding, samples: &[i32], _bits_per_sample: u8) -> SubFrame {
    unsafe {
        let k = SUB_STUB_CALLS;
        SUB_STUB_CALLS += 1;
        Constant::from_parts(samples.len(), k as i32, SUB_STUB_BPS[k % 4]).into()
    }
}
/// Stand-in for `Frame::subframe`: reads the same subframes from a static table instead of the
/// frame's `Vec<SubFrame>` (a SubFrame read back from a Vec has a symbolic discriminant under
/// CBMC and every count_bits/write variant gets explored: no answer in 40 min).  The frame is
/// identified by its channel assignment (independent: entries 0/1, mid-side: entries 2/3).
fn frame_subframe_stub(frame: &Frame, ch: usize) -> Option<&SubFrame> {
    let base = if matches!(*frame.header().channel_assignment(), ChannelAssignment::Independent(_)) { 0 } else { 2 };
    if ch >= 2 {
        return None;
    }
    unsafe { SUB_STUB_STATIC[base + ch].as_ref() }
}

//@ prop: C09
//@ tier: thorough
//@ drives: coding::encode_frame, coding::encode_frame_impl, coding::try_stereo_coding (the bit-count comparison among independent / left-side / right-side / mid-side), coding::recombine_stereo_frame, ChannelAssignment::select_channels, FrameBuf::fill_stereo_with_iter
//@ bound: 2-channel frame of 32 samples (zeros); the four subframe sizes (left, right, mid, side) arbitrary in 16..=263 bits; every combination of the three stereo switches
//@ asserts: the chosen channel assignment has the minimum total size among the enabled combinations and never exceeds left+right coded independently; the emitted pair of subframes is the pair the assignment names (identified by tags planted in the stand-in subframes)
//@ stubs: coding::encode_subframe -> constant subframes of arbitrary size; Frame::subframe -> the same subframes read from a static table (see frame_subframe_stub); alloc::fmt::format -> empty string
//@ note: measured: no answer in 15 min - `combinations.iter().flatten()` over options with symbolic discriminants is unwound to the bound on every call; reported undecided when it times out
//@ oracle: c09_oracle_stereo_anticorrelated
#[kani::proof]
#[kani::unwind(40)]
#[kani::stub(alloc::fmt::format, fmt_stub)]
#[kani::stub(super::encode_subframe, encode_subframe_stub)]
#[kani::stub(crate::component::datatype::Frame::subframe, frame_subframe_stub)]
fn c09_stereo_selection_never_exceeds_independent() {
    let mut cfg = config::Encoder::default();
    cfg.stereo_coding.use_leftside = kani::any();
    cfg.stereo_coding.use_rightside = kani::any();
    cfg.stereo_coding.use_midside = kani::any();
    let bps: [u8; 4] = kani::any();
    unsafe {
        SUB_STUB_CALLS = 0;
        SUB_STUB_BPS = bps;
        let mut k = 0;
        while k < 4 {
            SUB_STUB_STATIC[k] = Some(Constant::from_parts(32, k as i32, bps[k]).into());
            k += 1;
        }
    }
    let mut fb = crate::source::verif_kani::new_framebuf(2, 32);
    let r = fb.fill_interleaved(&[0i32; 64]);
    assert!(r.is_ok());
    std::mem::forget(r);
    let info = gen::stream_info_of(44100, 2, 16);
    let frame = encode_frame(&cfg, &fb, 0, &info);
    assert!(unsafe { SUB_STUB_CALLS } == 4);
    let (l, r, m, s) = (8 + bps[0] as usize, 8 + bps[1] as usize, 8 + bps[2] as usize, 8 + bps[3] as usize);
    let mut best = l + r;
    if cfg.stereo_coding.use_leftside && l + s < best { best = l + s; }
    if cfg.stereo_coding.use_rightside && r + s < best { best = r + s; }
    if cfg.stereo_coding.use_midside && m + s < best { best = m + s; }
    let (chosen, want_tags) = match *frame.header().channel_assignment() {
        ChannelAssignment::Independent(n) => { assert!(n == 2); (l + r, (0, 1)) }
        ChannelAssignment::LeftSide => { assert!(cfg.stereo_coding.use_leftside); (l + s, (0, 3)) }
        ChannelAssignment::RightSide => { assert!(cfg.stereo_coding.use_rightside); (s + r, (3, 1)) }
        ChannelAssignment::MidSide => { assert!(cfg.stereo_coding.use_midside); (m + s, (2, 3)) }
    };
    assert!(chosen == best);
    assert!(chosen <= l + r);
    // the pair actually emitted (dc_offset carries the call index planted by the stub)
    let assignment_is_rs = matches!(*frame.header().channel_assignment(), ChannelAssignment::RightSide);
    let (_h, subs) = frame.into_parts();
    assert!(subs.len() == 2);
    let tag = |sf: &SubFrame| -> i32 { if let SubFrame::Constant(c) = sf { c.dc_offset() } else { -1 } };
    assert!(tag(&subs[0]) == want_tags.0 && tag(&subs[1]) == want_tags.1);
    kani::cover!(assignment_is_rs);
    kani::cover!(chosen == l + r && best < m + s);
    std::mem::forget(subs);
    std::mem::forget(fb);
}

// ---- stereo choice, split at the two free functions around it (measured: finishes, unlike the
// harness above that goes through encode_frame / Vec<SubFrame>)
static mut MS_CAPTURE_M: [i32; 4] = [0; 4];
static mut MS_CAPTURE_S: [i32; 4] = [0; 4];
static mut MS_CAPTURE_N: usize = usize::MAX;
static mut MS_CAPTURE_SIZE: usize = usize::MAX;
static mut MS_IMPL_CALLS: usize = 0;
static mut MS_IMPL_ASSIGNMENT_OK: bool = false;
static mut RECOMBINE_TAG: u8 = 255;
static mut RECOMBINE_CALLS: usize = 0;

fn assignment_tag(a: &ChannelAssignment) -> u8 {
    match *a {
        ChannelAssignment::Independent(n) => n,
        ChannelAssignment::LeftSide => 100,
        ChannelAssignment::RightSide => 101,
        ChannelAssignment::MidSide => 102,
    }
}

/// Stand-in for `encode_frame_impl`: records what it is asked to encode (the mid/side buffer
/// built by the real `try_stereo_coding`) and returns a frame without subframes.
fn encode_frame_impl_capture_stub(
    _config: &config::Encoder,
    framebuf: &FrameBuf,
    offset: u64,
    _stream_info: &StreamInfo,
    ch_info: &ChannelAssignment,
) -> Frame {
    unsafe {
        MS_IMPL_CALLS += 1;
        MS_IMPL_ASSIGNMENT_OK = matches!(*ch_info, ChannelAssignment::MidSide);
        MS_CAPTURE_N = framebuf.filled_size();
        MS_CAPTURE_SIZE = framebuf.size();
        let (m, s) = (framebuf.channel_slice(0), framebuf.channel_slice(1));
        let mut t = 0;
        while t < 4 {
            if t < m.len() && t < s.len() {
                MS_CAPTURE_M[t] = m[t];
                MS_CAPTURE_S[t] = s[t];
            }
            t += 1;
        }
    }
    let mut f = Frame::new_empty(
        BlockSizeSpec::from_size(framebuf.filled_size() as u16),
        ch_info.clone(),
        SampleSizeSpec::B16,
        SampleRateSpec::R44_1kHz,
    );
    f.header_mut().set_frame_offset(FrameOffset::StartSample(offset));
    f
}

/// Stand-in for `recombine_stereo_frame`: records the channel assignment chosen by the real
/// selection code; the recombination itself has its own harness below.
fn recombine_capture_stub(header: FrameHeader, indep: Frame, ms: Frame) -> Frame {
    unsafe {
        RECOMBINE_TAG = assignment_tag(header.channel_assignment());
        RECOMBINE_CALLS += 1;
    }
    std::mem::forget(ms);
    std::mem::forget(header);
    indep
}

//@ prop: C09
//@ also: C01
//@ drives: coding::try_stereo_coding (the real mid/side transform closure, FrameBuf::resize, FrameBuf::fill_stereo_with_iter into the MSFRAMEBUF scratch buffer, the bit-count comparison among independent / left-side / right-side / mid-side, FrameHeader::reset_channel_assignment)
//@ bound: stereo block of 3 samples in a 4-sample frame buffer, every 24-bit sample value on both channels; the four subframe sizes (left, right, mid, side) arbitrary in 8..=263 bits; every combination of the three stereo switches
//@ asserts: (C09) the channel assignment handed to the recombination has the minimum total size among the enabled combinations and never exceeds left+right; (C01) the buffer handed to the mid/side encoder holds exactly the block's samples transformed so that the RFC 9639 inverse (mid<<1|side&1, +-side, >>1) returns left and right, with side within 25 bits and mid within 24 bits
//@ stubs: coding::encode_frame_impl -> records the buffer it is given and returns an empty frame; coding::recombine_stereo_frame -> records the chosen assignment (checked separately by c09_recombine_emits_the_named_pair); Frame::subframe -> stand-in subframes of arbitrary size from a static table; alloc::fmt::format -> empty string
//@ oracle: c09_oracle_stereo_anticorrelated
#[kani::proof]
#[kani::unwind(8)]
#[kani::stub(alloc::fmt::format, fmt_stub)]
#[kani::stub(super::encode_frame_impl, encode_frame_impl_capture_stub)]
#[kani::stub(super::recombine_stereo_frame, recombine_capture_stub)]
#[kani::stub(crate::component::datatype::Frame::subframe, frame_subframe_stub)]
fn c09_stereo_choice_is_minimum() {
    let mut cfg = config::Encoder::default();
    cfg.stereo_coding.use_leftside = kani::any();
    cfg.stereo_coding.use_rightside = kani::any();
    cfg.stereo_coding.use_midside = kani::any();
    let bps: [u8; 4] = kani::any();
    unsafe {
        let mut k = 0;
        while k < 4 {
            SUB_STUB_STATIC[k] = Some(Constant::from_parts(3, k as i32, bps[k]).into());
            k += 1;
        }
    }
    let x: [i32; 6] = kani::any();
    let mut k = 0;
    while k < 6 {
        kani::assume(x[k] >= -(1 << 23) && x[k] < (1 << 23));
        k += 1;
    }
    let mut fb = crate::source::verif_kani::new_framebuf(2, 4);
    let r = fb.fill_interleaved(&x);
    assert!(r.is_ok());
    std::mem::forget(r);
    let info = gen::stream_info_of(44100, 2, 24);
    let indep = Frame::new_empty(
        BlockSizeSpec::from_size(3),
        ChannelAssignment::Independent(2),
        SampleSizeSpec::B24,
        SampleRateSpec::R44_1kHz,
    );
    let frame = try_stereo_coding(&cfg, &fb, indep, 0, &info);
    unsafe {
        assert!(MS_IMPL_CALLS == 1 && MS_IMPL_ASSIGNMENT_OK && RECOMBINE_CALLS == 1);
        // C01: the mid/side buffer is an invertible image of exactly this block
        assert!(MS_CAPTURE_N == 3 && MS_CAPTURE_SIZE == 4);
        let mut t = 0;
        while t < 3 {
            let (l, r) = (x[2 * t] as i64, x[2 * t + 1] as i64);
            let (m, s) = (MS_CAPTURE_M[t] as i64, MS_CAPTURE_S[t] as i64);
            let mid = (m << 1) | (s & 1);
            assert!((mid + s) >> 1 == l);
            assert!((mid - s) >> 1 == r);
            assert!(s >= -(1 << 24) && s < (1 << 24));
            assert!(m >= -(1 << 23) && m < (1 << 23));
            t += 1;
        }
    }
    // C09: the choice is the minimum over the enabled combinations
    let (l, r, m, s) = (8 + bps[0] as usize, 8 + bps[1] as usize, 8 + bps[2] as usize, 8 + bps[3] as usize);
    let mut best = l + r;
    if cfg.stereo_coding.use_leftside && l + s < best { best = l + s; }
    if cfg.stereo_coding.use_rightside && r + s < best { best = r + s; }
    if cfg.stereo_coding.use_midside && m + s < best { best = m + s; }
    let tag = unsafe { RECOMBINE_TAG };
    let chosen = if tag == 2 { l + r }
        else if tag == 100 { assert!(cfg.stereo_coding.use_leftside); l + s }
        else if tag == 101 { assert!(cfg.stereo_coding.use_rightside); s + r }
        else { assert!(tag == 102 && cfg.stereo_coding.use_midside); m + s };
    assert!(chosen == best);
    assert!(chosen <= l + r);
    kani::cover!(tag == 101);
    kani::cover!(tag == 2 && cfg.stereo_coding.use_midside);
    kani::cover!(x[0] < 0 && x[1] > 0 && (x[0] + x[1]) & 1 == 1);
    std::mem::forget(frame);
    std::mem::forget(fb);
}

fn recombine_case(assignment: ChannelAssignment, want: (i32, i32)) {
    let mk = |a: ChannelAssignment, t0: i32, t1: i32| -> Frame {
        let mut f = Frame::new_empty(BlockSizeSpec::from_size(3), a, SampleSizeSpec::B16, SampleRateSpec::R44_1kHz);
        f.add_subframe(Constant::from_parts(3, t0, 16).into());
        f.add_subframe(Constant::from_parts(3, t1, 17).into());
        f
    };
    let indep = mk(ChannelAssignment::Independent(2), 0, 1);
    let ms = mk(ChannelAssignment::MidSide, 2, 3);
    let mut header = ms.header().clone();
    header.reset_channel_assignment(assignment.clone());
    let out = recombine_stereo_frame(header, indep, ms);
    assert!(*out.header().channel_assignment() == assignment);
    assert!(out.subframe_count() == 2);
    let tag = |sf: Option<&SubFrame>| -> i32 { if let Some(SubFrame::Constant(c)) = sf { c.dc_offset() } else { -1 } };
    assert!(tag(out.subframe(0)) == want.0);
    assert!(tag(out.subframe(1)) == want.1);
    // the extra bit of the side channel sits where RFC 9639 puts it for this assignment
    let side_pos = if want.0 == 3 { Some(0) } else if want.1 == 3 { Some(1) } else { None };
    assert!(assignment.bits_per_sample_offset(0) == if side_pos == Some(0) { 1 } else { 0 });
    assert!(assignment.bits_per_sample_offset(1) == if side_pos == Some(1) { 1 } else { 0 });
    std::mem::forget(out);
}

//@ prop: C09
//@ also: C01
//@ drives: coding::recombine_stereo_frame, Frame::into_stereo_channels, ChannelAssignment::select_channels, ChannelAssignment::bits_per_sample_offset, Frame::from_parts, FrameHeader::reset_channel_assignment
//@ bound: the four stereo channel assignments (symbolic choice), stand-in subframes tagged left=0, right=1, mid=2, side=3
//@ asserts: the frame carries the assignment it was given and exactly the pair of subframes RFC 9639 names for it (independent: left,right; left-side: left,side; right-side: side,right; mid-side: mid,side); the side channel is the one declared one bit wider
#[kani::proof]
#[kani::unwind(6)]
#[kani::stub(alloc::fmt::format, fmt_stub)]
fn c09_recombine_emits_the_named_pair() {
    let which: u8 = kani::any();
    kani::assume(which < 4);
    if which == 0 {
        recombine_case(ChannelAssignment::Independent(2), (0, 1));
    } else if which == 1 {
        recombine_case(ChannelAssignment::LeftSide, (0, 3));
    } else if which == 2 {
        recombine_case(ChannelAssignment::RightSide, (3, 1));
    } else {
        recombine_case(ChannelAssignment::MidSide, (2, 3));
    }
    kani::cover!(which == 2);
}

static mut WIRE_CALLS: usize = 0;
static mut WIRE_FIRST: [i32; 8] = [0; 8];
static mut WIRE_LEN: [usize; 8] = [0; 8];
static mut WIRE_BPS: [u8; 8] = [0; 8];
/// Stand-in for `encode_subframe`: records the channel data and width it is asked to encode and
/// returns a constant subframe tagged with the call index.
fn encode_subframe_wiring_stub(_config: &config::SubFrameCoding, samples: &[i32], bits_per_sample: u8) -> SubFrame {
    unsafe {
        let k = WIRE_CALLS;
        WIRE_CALLS += 1;
        if k < 8 {
            WIRE_FIRST[k] = if samples.is_empty() { i32::MIN } else { samples[0] };
            WIRE_LEN[k] = samples.len();
            WIRE_BPS[k] = bits_per_sample;
        }
        Constant::from_parts(samples.len(), k as i32, bits_per_sample).into()
    }
}

fn frame_impl_wiring_case<const CH: usize>(assignment: ChannelAssignment, bps: u8) {
    let cfg = config::Encoder::default();
    let firsts: [i16; CH] = kani::any();
    let mut fb = crate::source::verif_kani::new_framebuf(CH, 4);
    let mut inter = [0i32; CH];
    let mut c = 0;
    while c < CH {
        inter[c] = firsts[c] as i32;
        c += 1;
    }
    // one inter-channel sample followed by a second one (zeros): fill level 2 of 4
    let mut two = [[0i32; CH]; 2];
    two[0] = inter;
    let flat: &[i32] = unsafe { std::slice::from_raw_parts(two.as_ptr() as *const i32, 2 * CH) };
    let r = fb.fill_interleaved(flat);
    assert!(r.is_ok());
    std::mem::forget(r);
    let info = gen::stream_info_of(44100, CH as u8, bps);
    let offset: u64 = kani::any();
    kani::assume(offset < (1u64 << 36));
    unsafe { WIRE_CALLS = 0; }
    let frame = encode_frame_impl(&cfg, &fb, offset, &info, &assignment);
    unsafe {
        assert!(WIRE_CALLS == CH);
        let mut c = 0;
        while c < CH {
            // channel c's samples, whole fill level, declared width plus the side-channel bit
            assert!(WIRE_FIRST[c] == firsts[c] as i32 && WIRE_LEN[c] == 2);
            assert!(WIRE_BPS[c] as usize == bps as usize + assignment.bits_per_sample_offset(c));
            let tag = if let Some(SubFrame::Constant(k)) = frame.subframe(c) { k.dc_offset() } else { -1 };
            assert!(tag == c as i32);
            c += 1;
        }
    }
    assert!(frame.subframe_count() == CH);
    assert!(frame.header().block_size() == 2);
    assert!(*frame.header().channel_assignment() == assignment);
    assert!(frame.header().bits_per_sample() == Some(bps as usize));
    assert!(matches!(*frame.header().sample_rate_spec(), SampleRateSpec::R44_1kHz));
    assert!(frame.header().start_sample_number() == offset);
    std::mem::forget(frame);
    std::mem::forget(fb);
}

//@ prop: C01
//@ also: C02
//@ drives: coding::encode_frame_impl (per-channel dispatch: FrameBuf::channel_slice, ChannelAssignment::bits_per_sample_offset, Frame::new_empty, Frame::add_subframe, FrameHeader::set_frame_offset, BlockSizeSpec::from_size, SampleSizeSpec::from_bits, SampleRateSpec::from_freq)
//@ bound: frames of 1, 2 (independent, mid-side, right-side headers) and 3 channels, fill level 2 of a 4-sample buffer, 16/24-bit, first sample of every channel symbolic, start-sample offset over 36 bits
//@ asserts: subframe c is built from channel c's samples (all of the fill level, nothing of the unfilled tail) with the declared width plus one bit exactly for the side channel; subframes are stored in channel order; the header states the fill level as block size, the stream's sample size and rate, the given channel assignment and offset
//@ stubs: coding::encode_subframe -> records its arguments and returns a tagged constant subframe; alloc::fmt::format -> empty string
#[kani::proof]
#[kani::unwind(10)]
#[kani::stub(alloc::fmt::format, fmt_stub)]
#[kani::stub(super::encode_subframe, encode_subframe_wiring_stub)]
fn c01_encode_frame_impl_wiring() {
    let which: u8 = kani::any();
    kani::assume(which < 5);
    if which == 0 {
        frame_impl_wiring_case::<1>(ChannelAssignment::Independent(1), 16);
    } else if which == 1 {
        frame_impl_wiring_case::<2>(ChannelAssignment::Independent(2), 24);
    } else if which == 2 {
        frame_impl_wiring_case::<2>(ChannelAssignment::MidSide, 16);
    } else if which == 3 {
        frame_impl_wiring_case::<2>(ChannelAssignment::RightSide, 24);
    } else {
        frame_impl_wiring_case::<3>(ChannelAssignment::Independent(3), 16);
    }
    kani::cover!(which == 2);
    kani::cover!(which == 4);
}

//@ prop: C09
//@ expect: fail
//@ drives: (reachability witness) encode_subframe with stubbed candidates
//@ bound: as c09_subframe_selection_never_exceeds_verbatim
#[kani::proof]
#[kani::unwind(70)]
#[kani::stub(alloc::fmt::format, fmt_stub)]
#[kani::stub(super::fixed_lpc, fixed_lpc_stub)]
#[kani::stub(super::estimated_qlpc, estimated_qlpc_stub)]
fn c09_vacuity_twin() {
    let cfg = config::SubFrameCoding::default();
    unsafe {
        FIXED_STUB_BITS = 100;
        FIXED_STUB_SOME = true;
        QLPC_STUB_BITS = kani::any();
    }
    let mut samples = [0i32; 64];
    samples[3] = 1;
    let sf = encode_subframe(&cfg, &samples, 16);
    kani::assume(sf.count_bits() > 0);
    std::mem::forget(sf);
    assert!(false);
}

// ======================================================================== C04 stream bounds
/// The digest value is irrelevant to C04; the MD5 compression function is replaced by a no-op.
fn md5_noop_stub(state: &mut [u32; 4], _input: &[u8; 64]) {
    state[0] = state[0].wrapping_add(1);
}
/// Stand-in for `encode_fixed_size_frame`: a frame of header + footer whose block size is the
/// fill level of the frame buffer.  C04 is about the STREAMINFO accounting of the encode loop,
/// not about frame contents, and real frames (Vec<SubFrame>) are beyond CBMC: the real loop
/// with real frames exhausted 12 GB even on concrete input.
fn encode_fixed_size_frame_stub(
    _config: &Verified<config::Encoder>,
    framebuf: &FrameBuf,
    frame_number: usize,
    _stream_info: &StreamInfo,
) -> Result<Frame, EncodeError> {
    let mut frame = Frame::new_empty(
        BlockSizeSpec::from_size(framebuf.filled_size() as u16),
        ChannelAssignment::Independent(1),
        SampleSizeSpec::B16,
        SampleRateSpec::R44_1kHz,
    );
    frame.header_mut().set_frame_offset(FrameOffset::Frame(frame_number as u32));
    Ok(frame)
}

/// A user `Source` delivering `remaining` mono 16-bit zero samples as packed bytes (the byte
/// path hashes one buffer per block; the integer path feeds MD5 sample by sample, which makes
/// symbolic execution of a 33-sample input take > 15 min even with the compression stubbed).
struct ZeroByteSource {
    remaining: usize,
}
impl crate::source::Source for ZeroByteSource {
    fn channels(&self) -> usize { 1 }
    fn bits_per_sample(&self) -> usize { 16 }
    fn sample_rate(&self) -> usize { 44100 }
    fn read_samples<F: crate::source::Fill>(&mut self, block_size: usize, dest: &mut F) -> Result<usize, crate::error::SourceError> {
        static ZEROS: [u8; 160] = [0u8; 160];
        let n = std::cmp::min(block_size, self.remaining);
        dest.fill_le_bytes(&ZEROS[..2 * n], 2)?;
        self.remaining -= n;
        Ok(n)
    }
}

/// Runs the real single-threaded `encode_with_fixed_block_size` on N_SAMPLES mono 16-bit
/// samples with block size BS and checks the STREAMINFO bounds of the returned stream.
fn stream_bounds_case<const N_SAMPLES: usize, const BS: usize>() -> bool {
    let mut cfg = config::Encoder::default();
    cfg.multithread = false;
    cfg.block_size = BS;
    let cfg = match crate::error::Verify::into_verified(cfg) {
        Ok(c) => c,
        Err(e) => {
            std::mem::forget(e);
            assert!(false);
            return false;
        }
    };
    let src = ZeroByteSource { remaining: N_SAMPLES };
    let stream = match encode_with_fixed_block_size(&cfg, src, BS) {
        Ok(s) => s,
        Err(e) => {
            std::mem::forget(e);
            assert!(false);
            return false;
        }
    };
    let nframes = (N_SAMPLES + BS - 1) / BS;
    assert!(stream.frame_count() == nframes);
    let info = stream.stream_info();
    assert!(info.total_samples() == N_SAMPLES);
    if nframes > 0 {
        // maximum block size = requested block size
        assert!(info.max_block_size() == BS);
        // minimum block size: >= 16 and <= every non-final frame (RFC 9639 8.2)
        assert!(info.min_block_size() >= 16);
        assert!(info.min_block_size() <= info.max_block_size());
        let mut k = 0;
        while k < nframes {
            let f = stream.frame(k).unwrap();
            let expect_bs = if k + 1 < nframes || N_SAMPLES % BS == 0 { BS } else { N_SAMPLES % BS };
            assert!(f.block_size() == expect_bs);
            assert!(f.header().frame_number() as usize == k);
            if k + 1 < nframes {
                assert!(info.min_block_size() <= f.block_size());
            }
            k += 1;
        }
        // every stand-in frame is 9 bytes (7-byte header with 8-bit block-size field, no
        // subframes, 2-byte CRC); count_bits() is not called on frames read back from the
        // Vec<Frame> (their empty subframe vectors cannot be resolved by CBMC)
        assert!(info.min_frame_size() == 9);
        assert!(info.max_frame_size() == 9);
    }
    std::mem::forget(stream);
    std::mem::forget(cfg);
    nframes >= 2 && N_SAMPLES % BS != 0
}

//@ prop: C04
//@ features: nopar
//@ drives: coding::encode_with_fixed_block_size (the real single-thread loop: Stream::new, FrameBuf::with_size, set_block_sizes, Source::read_samples of a user source filling packed bytes, FrameBuf::fill_le_bytes, Context::fill_le_bytes frame numbering and sample count, Stream::add_frame, StreamInfo::update_frame_info, total-sample bookkeeping)
//@ bound: a mono 16-bit input of 33 samples with block size 32 (one full block and a final block of 1 sample); the length is concrete (symbolic lengths make the containers symbolic); measured 3.5 min per case
//@ asserts: frame count = ceil(len/block); max block size == requested; min block size >= 16 and <= every non-final frame (RFC 9639 8.2); min/max frame size == smallest/largest frame byte length; total samples == input length; frame k has number k and the expected block size (only the last one is short)
//@ stubs: coding::encode_fixed_size_frame -> frame of header+footer with the buffer's fill level as block size (frame contents are irrelevant to C04; real frames are beyond CBMC); md5 compress_block -> no-op; alloc::fmt::format -> empty string
//@ oracle: c04_oracle_short_final_block
#[kani::proof]
#[kani::unwind(66)]
#[kani::stub(alloc::fmt::format, fmt_stub)]
#[kani::stub(md5::compress::soft::compress_block, md5_noop_stub)]
#[kani::stub(super::encode_fixed_size_frame, encode_fixed_size_frame_stub)]
fn c04_stream_bounds_short_final_block() {
    let c = stream_bounds_case::<33, 32>();
    kani::cover!(c);
}

//@ prop: C04
//@ features: nopar
//@ drives: coding::encode_with_fixed_block_size on an input SHORTER than one block (the single frame is both first and final)
//@ bound: a mono 16-bit input of 5 samples with block size 32
//@ asserts: as c04_stream_bounds_short_final_block (in particular: maximum block size == requested 32, minimum block size >= 16 although the only frame holds 5 samples)
//@ stubs: as c04_stream_bounds_short_final_block
//@ cover: none
//@ oracle: c04_oracle_short_final_block
#[kani::proof]
#[kani::unwind(66)]
#[kani::stub(alloc::fmt::format, fmt_stub)]
#[kani::stub(md5::compress::soft::compress_block, md5_noop_stub)]
#[kani::stub(super::encode_fixed_size_frame, encode_fixed_size_frame_stub)]
fn c04_stream_bounds_shorter_than_one_block() {
    let _c = stream_bounds_case::<5, 32>();
}

//@ prop: C04
//@ tier: thorough
//@ features: nopar
//@ drives: coding::encode_with_fixed_block_size
//@ bound: input lengths 0, 20, 32, 65 with block size 32 and 40 with block size 33 (empty input, shorter than one block, exact multiple, two full blocks + 1)
//@ asserts: as c04_stream_bounds_short_final_block
//@ stubs: as c04_stream_bounds_short_final_block
//@ cover: none
#[kani::proof]
#[kani::unwind(66)]
#[kani::stub(alloc::fmt::format, fmt_stub)]
#[kani::stub(md5::compress::soft::compress_block, md5_noop_stub)]
#[kani::stub(super::encode_fixed_size_frame, encode_fixed_size_frame_stub)]
fn c04_stream_bounds_lengths() {
    let sel: u8 = kani::any();
    let _c = match sel {
        0 => stream_bounds_case::<0, 32>(),
        1 => stream_bounds_case::<20, 32>(),
        2 => stream_bounds_case::<32, 32>(),
        3 => stream_bounds_case::<65, 32>(),
        _ => stream_bounds_case::<40, 33>(),
    };
}

// ======================================================================== C01 lemmas / C10 scratch buffers
//@ prop: C01
//@ also: C13
//@ drives: coding::quotients_and_remainders, rice::encode_signbit, rice::decode_signbit
//@ bound: every residual value except i32::MIN (|e| < 2^31), every Rice parameter 0..=14
//@ asserts: (quotient << p) + remainder is the zig-zag code of the residual, the remainder is below 2^p, and un-zig-zagging gives the residual back (the Rice split loses nothing)
#[kani::proof]
fn c01_rice_split_is_invertible() {
    let e: i32 = kani::any();
    kani::assume(e != i32::MIN);
    let p: u8 = kani::any();
    kani::assume(p <= 14);
    let (q, r) = quotients_and_remainders(e, p);
    assert!(r < (1u32 << p));
    let folded = ((q as u64) << p) + r as u64;
    assert!(folded <= u32::MAX as u64);
    assert!(rice::decode_signbit(folded as u32) == e);
    kani::cover!(e < -1000 && p == 3);
}

fn fixed_errors_case<const N: usize, const M: usize>() -> bool {
    // arbitrary prior content: what a previous call on a block of M samples left behind
    let garbage: [i32; M] = kani::any();
    let mut errors: FixedLpcErrors = Default::default();
    let mut k = 0;
    while k < 5 {
        errors[k].reset_from_slice(&garbage);
        k += 1;
    }
    let mut signal = [0i32; N];
    let mut i = 0;
    while i < N {
        let v: i32 = kani::any();
        kani::assume(v >= -(1 << 24) && v < (1 << 24)); // 25-bit side-channel range
        signal[i] = v;
        i += 1;
    }
    reset_fixed_lpc_errors(&mut errors, &signal);
    let mut k = 0;
    while k < 5 {
        assert!(errors[k].as_ref().len() == N);
        k += 1;
    }
    // order 0 is the signal; order k+1 is the first difference of order k (for t > k), which
    // is the RFC 9639 fixed predictor of order k+1 applied to the signal
    let t: usize = kani::any();
    kani::assume(t < N);
    assert!(errors[0].as_ref()[t] == signal[t]);
    let mut k = 0;
    while k < 4 {
        if t >= k + 1 {
            assert!(errors[k + 1].as_ref()[t] == errors[k].as_ref()[t] - errors[k].as_ref()[t - 1]);
        }
        k += 1;
    }
    if t >= 4 {
        let x = |d: usize| signal[t - d] as i64;
        assert!(errors[2].as_ref()[t] as i64 == x(0) - 2 * x(1) + x(2));
        assert!(errors[4].as_ref()[t] as i64 == x(0) - 4 * x(1) + 6 * x(2) - 4 * x(3) + x(4));
    }
    t >= 4 && signal[t] < 0
}

//@ prop: C01
//@ also: C10
//@ tier: thorough
//@ drives: coding::reset_fixed_lpc_errors, SimdVec::{reset_from_slice, resize, as_ref, as_ref_simd, as_mut_simd}, arrayutils::pack_into_simd_vec
//@ bound: a block of 6 samples (one 16-lane vector), every 25-bit sample value, scratch buffers holding arbitrary content from a previous 20-sample block (two vectors: the buffers shrink)
//@ asserts: errors[0] is the signal; errors[k+1][t] = errors[k][t] - errors[k][t-1] for t > k; orders 2 and 4 equal the RFC 9639 fixed-predictor residuals; nothing of the previous block survives (lengths and contents depend on the arguments only)
#[kani::proof]
#[kani::unwind(40)]
fn c01_fixed_residuals_from_dirty_scratch() {
    let c = fixed_errors_case::<6, 20>();
    kani::cover!(c);
}

//@ prop: C01
//@ also: C10
//@ drives: coding::reset_fixed_lpc_errors, SimdVec::{reset_from_slice, resize, as_ref, as_ref_simd, as_mut_simd}, arrayutils::pack_into_simd_vec
//@ tier: thorough
//@ bound: a block of 5 samples (one 16-lane vector), every 25-bit sample value, scratch buffers holding arbitrary content from a previous 3-sample block (meant as the quick-tier version of c01_fixed_residuals_from_dirty_scratch, but it needs > 10 min on a loaded machine as well - five heap-backed SIMD planes - so it runs in the thorough tier; the quick tier covers the SIMD buffer helpers separately: c10_simdvec_*)
//@ asserts: as c01_fixed_residuals_from_dirty_scratch
#[kani::proof]
#[kani::unwind(40)]
fn c01_fixed_residuals_small() {
    let c = fixed_errors_case::<5, 3>();
    kani::cover!(c);
}

//@ prop: C01
//@ also: C10
//@ tier: thorough
//@ drives: coding::reset_fixed_lpc_errors
//@ bound: blocks of 33 samples (three SIMD vectors, carries across both boundaries) after a 40-sample block, and 17 samples after a 5-sample block (the buffers grow)
//@ asserts: as c01_fixed_residuals_from_dirty_scratch
#[kani::proof]
#[kani::unwind(70)]
fn c01_fixed_residuals_three_vectors() {
    let c = if kani::any() { fixed_errors_case::<33, 40>() } else { fixed_errors_case::<17, 5>() };
    kani::cover!(c);
}

fn residual_assembly_case<const B: usize, const ORDER: usize, const NP: usize>() -> bool {
    let mut errors = [0i32; B];
    let mut i = 0;
    while i < B {
        let v: i32 = kani::any();
        kani::assume(v > -(1 << 30) && v < (1 << 30));
        errors[i] = v;
        i += 1;
    }
    let warmup: usize = kani::any();
    kani::assume(warmup <= B / NP && warmup <= 2);
    let ps: [u8; NP] = kani::any();
    let mut psv = Vec::with_capacity(NP);
    let mut p = 0;
    while p < NP {
        kani::assume(ps[p] <= 14);
        psv.push(ps[p]);
        p += 1;
    }
    let prc = rice::PrcParameter::new(ORDER, psv, 0);
    let cfg = config::Prc::default();
    let r = encode_residual_with_prc_parameter(&cfg, &errors, warmup, prc);
    let t: usize = kani::any();
    kani::assume(t < B);
    if t < warmup {
        assert!(r.residual(t) == 0);
    } else {
        assert!(r.residual(t) == errors[t]);
    }
    assert!(crate::component::verif_kani::gen::valid_residual(&r));
    let c = t >= warmup && errors[t] < 0;
    std::mem::forget(r);
    c
}

//@ prop: C01
//@ drives: coding::encode_residual_with_prc_parameter, coding::encode_residual_partition, coding::quotients_and_remainders, Residual::from_parts, Residual::residual
//@ bound: block 8 in 1 partition, warm-up 0..=2, every Rice parameter 0..=14, every error value with |e| < 2^30
//@ asserts: the assembled residual reproduces every error value at and after the warm-up (Residual::residual(t) == errors[t]) and is zero-padded before; it satisfies the well-formedness predicate (c18/c08)
#[kani::proof]
#[kani::unwind(70)]
fn c01_residual_assembly_one_partition() {
    let c = residual_assembly_case::<8, 0, 1>();
    kani::cover!(c);
}

//@ prop: C01
//@ drives: coding::encode_residual_with_prc_parameter, coding::encode_residual_partition, coding::quotients_and_remainders, Residual::from_parts, Residual::residual
//@ bound: block 8 in 2 partitions, warm-up 0..=2, every Rice parameter 0..=14 per partition, every error value with |e| < 2^30
//@ asserts: as c01_residual_assembly_one_partition
#[kani::proof]
#[kani::unwind(70)]
fn c01_residual_assembly_two_partitions() {
    let c = residual_assembly_case::<8, 1, 2>();
    kani::cover!(c);
}

// ======================================================================== C13: the callers hand the Rice search its documented search space
static mut PRC_CALLS: usize = 0;
static mut PRC_MAX_P: [usize; 4] = [usize::MAX; 4];
static mut PRC_WARMUP: [usize; 4] = [usize::MAX; 4];
static mut PRC_LEN: [usize; 4] = [usize::MAX; 4];
/// Stand-in for `rice::find_partitioned_rice_parameter` that records its arguments (the search
/// itself is decided by the C13 lemma chain in rice.rs) and returns a one-partition answer.
fn prc_search_recording_stub(errors: &[i32], warmup_length: usize, max_p: usize) -> rice::PrcParameter {
    unsafe {
        let k = PRC_CALLS;
        if k < 4 {
            PRC_MAX_P[k] = max_p;
            PRC_WARMUP[k] = warmup_length;
            PRC_LEN[k] = errors.len();
        }
        PRC_CALLS = k + 1;
    }
    let mut ps = Vec::with_capacity(1);
    ps.push(0u8);
    // a concrete cost: which candidate wins is irrelevant to the claim, and a symbolic winner
    // makes the containers handed to the residual assembly symbolic (no answer in 500 s)
    rice::PrcParameter::new(0, ps, 100)
}

//@ prop: C13
//@ also: C07
//@ drives: coding::encode_residual (call site of rice::find_partitioned_rice_parameter used by the LPC path and by estimate-based order selection)
//@ bound: a 4-sample error vector (content irrelevant: zeros), every configured maximum Rice parameter 0..=14, warm-up 0..=2
//@ asserts: the Rice search receives the whole error vector, the warm-up and EXACTLY the configured maximum parameter - so the search space of the lemma chain (parameters 0..=the configured maximum) is the one the encoder searches
//@ stubs: rice::find_partitioned_rice_parameter -> records its arguments, returns one partition with parameter 0 and cost 100
#[kani::proof]
#[kani::unwind(70)]
#[kani::stub(crate::rice::find_partitioned_rice_parameter, prc_search_recording_stub)]
fn c13_l0_encode_residual_passes_configured_maximum() {
    let mut cfg = config::Prc::default();
    let max_p: usize = kani::any();
    kani::assume(max_p <= 14);
    cfg.max_parameter = max_p;
    let e0 = [0i32; 4];
    let warm: usize = kani::any();
    kani::assume(warm <= 2);
    let r = encode_residual(&cfg, &e0, warm);
    std::mem::forget(r);
    unsafe {
        assert!(PRC_CALLS == 1);
        assert!(PRC_MAX_P[0] == max_p && PRC_WARMUP[0] == warm && PRC_LEN[0] == 4);
    }
    kani::cover!(max_p == 14 && warm == 2);
}

//@ prop: C13
//@ also: C07
//@ drives: coding::select_order_and_encode_residual (OrderSel::BitCount branch: one Rice search per candidate predictor order)
//@ bound: two candidate orders (0 and 1) with 4-sample error vectors (zeros), every configured maximum Rice parameter 0..=14, every sample width 4..=32, baseline 0 (the candidates are searched but none is assembled)
//@ asserts: each of the two searches receives the whole error vector, the candidate's order as warm-up and EXACTLY the configured maximum parameter, whatever the sample width
//@ stubs: as c13_l0_encode_residual_passes_configured_maximum
#[kani::proof]
#[kani::unwind(70)]
#[kani::stub(crate::rice::find_partitioned_rice_parameter, prc_search_recording_stub)]
fn c13_l0_order_selection_passes_configured_maximum() {
    let mut cfg = config::Prc::default();
    let max_p: usize = kani::any();
    kani::assume(max_p <= 14);
    cfg.max_parameter = max_p;
    let e0 = [0i32; 4];
    let e1 = [0i32; 4];
    let bps: usize = kani::any();
    kani::assume(bps >= 4 && bps <= 32);
    let cands = [(0usize, &e0[..]), (1usize, &e1[..])];
    // baseline 0: the winner is searched (both Rice searches run) but not assembled - the
    // assembly is c01_residual_assembly_*; with it this harness does not finish in 500 s
    let r = select_order_and_encode_residual(&config::OrderSel::BitCount, &cfg, cands.into_iter(), bps, 0);
    let none = r.is_none();
    std::mem::forget(r);
    assert!(none);
    unsafe {
        assert!(PRC_CALLS == 2);
        assert!(PRC_MAX_P[0] == max_p && PRC_WARMUP[0] == 0 && PRC_LEN[0] == 4);
        assert!(PRC_MAX_P[1] == max_p && PRC_WARMUP[1] == 1 && PRC_LEN[1] == 4);
    }
    kani::cover!(max_p == 14 && bps == 8);
}

// ======================================================================== C07: consumers of accepted boundary values
fn sum_abs_stub<const N: usize>(data: &[i32]) -> f32
where
    simd::LaneCount<N>: simd::SupportedLaneCount,
{
    // the slice has been formed (that is the part under test); its float sum is irrelevant
    let _n = data.len();
    let v: f32 = kani::any();
    kani::assume(v >= 0.0 && v <= 1.0e12);
    v
}

fn log2_stub(_x: f32) -> f32 {
    kani::any()
}
fn mul_add_stub(_x: f32, _a: f32, _b: f32) -> f32 {
    // the per-sample cross entropy e*log2(1+1/e) + log2(1+e): for the reachable averages
    // (0 <= e < 2^50) it lies in [0, 52]; NaN (e = 0) casts to 0 bits like the value 0.0
    let v: f32 = kani::any();
    kani::assume(v >= -64.0 && v <= 128.0);
    v
}

fn entropy_index_case<const N: usize>() -> bool {
    let errors = [0i32; N];
    let warmup: usize = kani::any();
    kani::assume(warmup <= 4);
    let partitions: usize = kani::any();
    kani::assume(partitions >= 1 && partitions <= 64);
    let _bits = estimate_entropy(&errors, warmup, partitions);
    partitions == 64 && warmup == 4
}

//@ prop: C07
//@ drives: coding::estimate_entropy (the consumer of `fixed.order_sel = ApproxEnt { partitions }`): partition sizing, the per-partition slice bounds and the warm-up handling
//@ bound: every accepted partition count 1..=64 and every fixed-predictor order 0..=4 as warm-up, for an error vector of 9 samples (the index arithmetic does not depend on the block being >= 64 samples: with 9 samples partitions are shorter than the warm-up from 3 partitions on and the trailing partitions are empty from 10 on - the situations a 64..192-sample block meets with 22..64 partitions)
//@ asserts: no panic (index out of range, subtraction overflow, division by zero) for any accepted configuration value - the second half of C07 for this field
//@ stubs: arrayutils::find_sum_abs_f32 -> any finite non-negative f32; f32::log2 -> any f32; f32::mul_add (the per-sample cross entropy) -> any value in [-64, 128], a superset of its mathematical range [0, 52] (the float value of the estimate is irrelevant to the property; CBMC does not finish on log2/mul_add: 500 s without the stubs, 4 min with them; the float analysis is outside every claim, DESIGN 4.3)
#[kani::proof]
#[kani::unwind(67)]
#[kani::stub(crate::arrayutils::find_sum_abs_f32, sum_abs_stub)]
#[kani::stub(f32::log2, log2_stub)]
#[kani::stub(f32::mul_add, mul_add_stub)]
fn c07_estimate_entropy_accepted_partitions_never_panic() {
    let c = entropy_index_case::<9>();
    kani::cover!(c);
}

// ======================================================================== C17: stream-level entry point (single-thread)
//@ prop: C17
//@ features: nopar
//@ drives: coding::encode_with_fixed_block_size (single-thread path: Stream::new, FrameBuf::with_size block-size validation before anything is read or allocated)
//@ bound: every block-size argument outside 32..=32767 (free usize), a valid mono 16-bit byte source, a verified default configuration with multithread = false
//@ asserts: the call returns Err - it does not panic, and nothing is read from the source
//@ stubs: alloc::fmt::format -> empty string
#[kani::proof]
#[kani::unwind(8)]
#[kani::stub(alloc::fmt::format, fmt_stub)]
fn c17_stream_entry_block_size_argument() {
    let mut cfg = config::Encoder::default();
    cfg.multithread = false;
    let cfg = match crate::error::Verify::into_verified(cfg) {
        Ok(c) => c,
        Err(e) => {
            std::mem::forget(e);
            assert!(false);
            return;
        }
    };
    let bs: usize = kani::any();
    kani::assume(bs < 32 || bs > 32767);
    let r = encode_with_fixed_block_size(&cfg, ZeroByteSource { remaining: 40 }, bs);
    let is_err = r.is_err();
    std::mem::forget(r);
    std::mem::forget(cfg);
    assert!(is_err);
    kani::cover!(bs == 40000);
}

// ======================================================================== C17: frame-level entry point
//@ prop: C17
//@ drives: coding::encode_fixed_size_frame (frame-number check, FrameBuf::verify_samples), encode_frame, FrameHeader::set_frame_offset
//@ bound: frame_number free over all of usize (so 2^31, 2^32+k, usize::MAX are in the query); a mono 16-bit frame buffer of 32 samples holding one arbitrary sample value (in or out of the 16-bit range) and zeros otherwise
//@ asserts: never panics; Ok implies frame_number < 2^31, every sample within the declared width, and the emitted header carries exactly that frame number (no truncation); Err otherwise
//@ stubs: alloc::fmt::format -> empty string
#[kani::proof]
#[kani::unwind(70)]
#[kani::stub(alloc::fmt::format, fmt_stub)]
fn c17_encode_fixed_size_frame_arguments() {
    let mut cfg = config::Encoder::default();
    cfg.multithread = false;
    let cfg = match crate::error::Verify::into_verified(cfg) {
        Ok(c) => c,
        Err(e) => {
            std::mem::forget(e);
            assert!(false);
            return;
        }
    };
    let frame_number: usize = kani::any();
    let x: i32 = kani::any();
    let mut fb = crate::source::verif_kani::new_framebuf(1, 32);
    let mut data = [0i32; 32];
    data[7] = x;
    let r = fb.fill_interleaved(&data);
    assert!(r.is_ok());
    std::mem::forget(r);
    let info = gen::stream_info_of(44100, 1, 16);
    let r = encode_fixed_size_frame(&cfg, &fb, frame_number, &info);
    let in_range = x >= -32768 && x <= 32767;
    match r {
        Ok(frame) => {
            assert!(frame_number < (1usize << 31));
            assert!(in_range);
            assert!(!frame.header().is_variable_blocking());
            assert!(frame.header().frame_number() as usize == frame_number);
            assert!(frame.block_size() == 32);
            kani::cover!(frame_number == 0x7FFF_FFFF);
            std::mem::forget(frame);
        }
        Err(e) => {
            assert!(frame_number >= (1usize << 31) || !in_range);
            std::mem::forget(e);
        }
    }
    std::mem::forget(fb);
    std::mem::forget(cfg);
}
