// Re-exports for harness modules outside `component` (its submodules are private).
//@file-needs: component/datatype.rs
pub(crate) use super::datatype::verif_kani as gen;
