// RFC 9639 subframe decoder (reference model).  Independent of the crate under test.
// Blocks of at most MAXB samples (harness bound).
use super::bits::BitReader;

pub const MAXB: usize = 16;

#[derive(Clone, Copy, Debug, PartialEq, Eq)]
pub enum SubErr {
    Padding,          // first bit of the subframe header must be zero
    ReservedType,
    Wasted,           // wasted-bits flag set (never emitted by this encoder)
    OrderTooLarge,    // predictor order >= block size
    Precision,        // 1111 = invalid
    NegativeShift,
    RiceMethod,       // only 00 (4-bit) and 01 (5-bit) are defined
    Escape,           // escape code partitions are not emitted by this encoder
    PartitionShape,   // block not divisible / first partition shorter than the order
    Overrun,
    ResidualRange,    // residual not representable in 32 bits (most negative excluded)
}

#[derive(Clone, Copy, Debug, PartialEq, Eq)]
pub struct SubInfo {
    pub kind: u8,   // 0 constant, 1 verbatim, 2 fixed, 3 lpc
    pub order: usize,
    pub partition_order: usize,
    pub precision: usize,
    pub shift: i32,
}

/// Partitioned-Rice residual (RFC 9639 section 9.2.7): fills res[order..block].
pub fn decode_residual(r: &mut BitReader, block: usize, order: usize, res: &mut [i64; MAXB], max_unary: usize) -> Result<usize, SubErr> {
    let method = r.read(2);
    if method > 1 {
        return Err(SubErr::RiceMethod);
    }
    let pbits = if method == 0 { 4 } else { 5 };
    let porder = r.read(4) as usize;
    let nparts = 1usize << porder;
    if block % nparts != 0 || (block >> porder) < order || (porder > 0 && (block >> porder) == 0) {
        return Err(SubErr::PartitionShape);
    }
    let plen = block >> porder;
    let mut t = order;
    let mut p = 0;
    while p < nparts {
        let param = r.read(pbits) as u32;
        if (method == 0 && param == 15) || (method == 1 && param == 31) {
            return Err(SubErr::Escape);
        }
        let end = (p + 1) * plen;
        while t < end {
            let q = r.read_unary(max_unary) as u64;
            let rem = r.read(param as usize);
            if r.overrun {
                return Err(SubErr::Overrun);
            }
            let folded: u64 = (q << param) | rem;
            if folded > u32::MAX as u64 {
                return Err(SubErr::ResidualRange);
            }
            let v: i64 = if folded & 1 == 1 { -(((folded >> 1) + 1) as i64) } else { (folded >> 1) as i64 };
            if v == i32::MIN as i64 {
                return Err(SubErr::ResidualRange);
            }
            res[t] = v;
            t += 1;
        }
        p += 1;
    }
    Ok(porder)
}

/// Decodes one subframe of `block` samples at `bps` bits per sample.
pub fn decode_subframe(r: &mut BitReader, block: usize, bps: usize, out: &mut [i64; MAXB], max_unary: usize) -> Result<SubInfo, SubErr> {
    if r.read(1) != 0 {
        return Err(SubErr::Padding);
    }
    let ty = r.read(6) as usize;
    if r.read(1) != 0 {
        return Err(SubErr::Wasted);
    }
    if ty == 0 {
        let v = r.read_signed(bps);
        let mut t = 0;
        while t < MAXB {
            if t < block { out[t] = v; }
            t += 1;
        }
        if r.overrun { return Err(SubErr::Overrun); }
        return Ok(SubInfo { kind: 0, order: 0, partition_order: 0, precision: 0, shift: 0 });
    }
    if ty == 1 {
        let mut t = 0;
        while t < MAXB {
            if t < block { out[t] = r.read_signed(bps); }
            t += 1;
        }
        if r.overrun { return Err(SubErr::Overrun); }
        return Ok(SubInfo { kind: 1, order: 0, partition_order: 0, precision: 0, shift: 0 });
    }
    if ty >= 8 && ty <= 12 {
        let order = ty - 8;
        if order > block {
            return Err(SubErr::OrderTooLarge);
        }
        let mut t = 0;
        while t < 4 {
            if t < order { out[t] = r.read_signed(bps); }
            t += 1;
        }
        let mut res = [0i64; MAXB];
        let po = decode_residual(r, block, order, &mut res, max_unary)?;
        let mut t = order;
        while t < block {
            let pred: i64 = match order {
                0 => 0,
                1 => out[t - 1],
                2 => 2 * out[t - 1] - out[t - 2],
                3 => 3 * out[t - 1] - 3 * out[t - 2] + out[t - 3],
                _ => 4 * out[t - 1] - 6 * out[t - 2] + 4 * out[t - 3] - out[t - 4],
            };
            out[t] = pred + res[t];
            t += 1;
        }
        if r.overrun { return Err(SubErr::Overrun); }
        return Ok(SubInfo { kind: 2, order, partition_order: po, precision: 0, shift: 0 });
    }
    if ty >= 32 {
        let order = ty - 31;
        if order > block {
            return Err(SubErr::OrderTooLarge);
        }
        let mut t = 0;
        while t < MAXB {
            if t < order { out[t] = r.read_signed(bps); }
            t += 1;
        }
        let pcode = r.read(4) as usize;
        if pcode == 15 {
            return Err(SubErr::Precision);
        }
        let precision = pcode + 1;
        let shift = r.read_signed(5);
        if shift < 0 {
            return Err(SubErr::NegativeShift);
        }
        let mut coefs = [0i64; MAXB];
        let mut j = 0;
        while j < MAXB {
            if j < order { coefs[j] = r.read_signed(precision); }
            j += 1;
        }
        let mut res = [0i64; MAXB];
        let po = decode_residual(r, block, order, &mut res, max_unary)?;
        let mut t = order;
        while t < block {
            let mut acc: i64 = 0;
            let mut j = 0;
            while j < order {
                acc += coefs[j] * out[t - 1 - j];
                j += 1;
            }
            out[t] = res[t] + (acc >> shift);
            t += 1;
        }
        if r.overrun { return Err(SubErr::Overrun); }
        return Ok(SubInfo { kind: 3, order, partition_order: po, precision, shift: shift as i32 });
    }
    Err(SubErr::ReservedType)
}
