// Reference models written from RFC 9639, independent of the crate under test.
// Used as oracles by the harnesses (and natively by /verif/harness/native tests).

/// MSB-first bit reader over a byte slice (at most 64 bits per read).
pub struct BitReader<'a> {
    pub data: &'a [u8],
    pub pos: usize, // in bits
    pub overrun: bool,
}

impl<'a> BitReader<'a> {
    pub fn new(data: &'a [u8]) -> Self {
        Self { data, pos: 0, overrun: false }
    }
    pub fn at(data: &'a [u8], pos: usize) -> Self {
        Self { data, pos, overrun: false }
    }
    pub fn remaining(&self) -> usize {
        self.data.len() * 8 - self.pos
    }
    /// Reads n (0..=64) bits, MSB first.
    pub fn read(&mut self, n: usize) -> u64 {
        if n == 0 {
            return 0;
        }
        if self.pos + n > self.data.len() * 8 {
            self.overrun = true;
            return 0;
        }
        let first = self.pos / 8;
        let off = self.pos % 8;
        // gather up to 9 bytes into a 128-bit window
        let mut win: u128 = 0;
        let mut j = 0;
        while j < 9 {
            let b = if first + j < self.data.len() { self.data[first + j] } else { 0 };
            win |= (b as u128) << (120 - 8 * j);
            j += 1;
        }
        self.pos += n;
        ((win << off) >> (128 - n)) as u64
    }
    /// two's complement field of n (1..=64) bits
    pub fn read_signed(&mut self, n: usize) -> i64 {
        let v = self.read(n);
        if n == 64 {
            v as i64
        } else if v >> (n - 1) != 0 {
            (v as i64) - (1i64 << n)
        } else {
            v as i64
        }
    }
    /// unary code: number of zeros before the next one bit (bounded by `max`)
    pub fn read_unary(&mut self, max: usize) -> usize {
        let mut q = 0;
        while q <= max {
            if self.read(1) == 1 || self.overrun {
                return q;
            }
            q += 1;
        }
        self.overrun = true;
        q
    }
}

/// CRC-8, polynomial x^8+x^2+x+1 (0x07), init 0 (RFC 9639 section 9.1.8), bitwise.
pub fn crc8(data: &[u8]) -> u8 {
    let mut crc: u8 = 0;
    let mut i = 0;
    while i < data.len() {
        crc ^= data[i];
        let mut k = 0;
        while k < 8 {
            crc = if crc & 0x80 != 0 { (crc << 1) ^ 0x07 } else { crc << 1 };
            k += 1;
        }
        i += 1;
    }
    crc
}

/// CRC-16, polynomial x^16+x^15+x^2+1 (0x8005), init 0 (RFC 9639 section 9.3), bitwise.
pub fn crc16(data: &[u8]) -> u16 {
    let mut crc: u16 = 0;
    let mut i = 0;
    while i < data.len() {
        crc ^= (data[i] as u16) << 8;
        let mut k = 0;
        while k < 8 {
            crc = if crc & 0x8000 != 0 { (crc << 1) ^ 0x8005 } else { crc << 1 };
            k += 1;
        }
        i += 1;
    }
    crc
}

/// "UTF-8-like" coded number (RFC 9639 section 9.1.5): returns (value, bytes used) or None
/// when malformed or not in shortest form.
pub fn utf8_decode(data: &[u8]) -> Option<(u64, usize)> {
    if data.is_empty() {
        return None;
    }
    let b0 = data[0];
    let (extra, init): (usize, u64) = if b0 & 0x80 == 0 {
        (0, b0 as u64)
    } else if b0 & 0xE0 == 0xC0 {
        (1, (b0 & 0x1F) as u64)
    } else if b0 & 0xF0 == 0xE0 {
        (2, (b0 & 0x0F) as u64)
    } else if b0 & 0xF8 == 0xF0 {
        (3, (b0 & 0x07) as u64)
    } else if b0 & 0xFC == 0xF8 {
        (4, (b0 & 0x03) as u64)
    } else if b0 & 0xFE == 0xFC {
        (5, (b0 & 0x01) as u64)
    } else if b0 == 0xFE {
        (6, 0)
    } else {
        return None;
    };
    if data.len() < 1 + extra {
        return None;
    }
    let mut v = init;
    let mut i = 0;
    while i < 6 {
        if i < extra {
            let b = data[1 + i];
            if b & 0xC0 != 0x80 {
                return None;
            }
            v = (v << 6) | (b & 0x3F) as u64;
        }
        i += 1;
    }
    // shortest form: the value must not fit in a shorter code
    let min_for_len: [u64; 7] = [0, 1 << 7, 1 << 11, 1 << 16, 1 << 21, 1 << 26, 1 << 31];
    if v < min_for_len[extra] {
        return None;
    }
    Some((v, 1 + extra))
}

/// Decoded frame header (RFC 9639 section 9.1).
#[derive(Clone, Copy, Debug, PartialEq, Eq)]
pub struct RefHeader {
    pub variable: bool,
    pub block_size: u32,      // in samples
    pub sample_rate: Option<u32>,   // None = "get from STREAMINFO"
    pub channels_code: u8,    // 0..=7 independent (n-1), 8 left/side, 9 side/right, 10 mid/side
    pub bits: Option<u8>,     // None = "get from STREAMINFO"
    pub number: u64,
    pub header_bytes: usize,  // including the CRC-8 byte
}

#[derive(Clone, Copy, Debug, PartialEq, Eq)]
pub enum HeaderError {
    Sync,
    ReservedBit,
    ReservedBlockSize,
    ReservedSampleRate,
    ReservedChannels,
    ReservedSampleSize,
    BadNumber,
    Truncated,
    Crc,
}

/// Decodes a frame header; rejects every reserved code; checks the CRC-8.
pub fn decode_header(data: &[u8]) -> Result<RefHeader, HeaderError> {
    if data.len() < 5 {
        return Err(HeaderError::Truncated);
    }
    if data[0] != 0xFF || (data[1] & 0xFC) != 0xF8 {
        return Err(HeaderError::Sync);
    }
    if data[1] & 0x02 != 0 {
        return Err(HeaderError::ReservedBit);
    }
    let variable = data[1] & 1 == 1;
    let bs_code = data[2] >> 4;
    let sr_code = data[2] & 0x0F;
    let ch_code = data[3] >> 4;
    let ss_code = (data[3] >> 1) & 0x07;
    if data[3] & 1 != 0 {
        return Err(HeaderError::ReservedBit);
    }
    if bs_code == 0 {
        return Err(HeaderError::ReservedBlockSize);
    }
    if sr_code == 15 {
        return Err(HeaderError::ReservedSampleRate);
    }
    if ch_code > 10 {
        return Err(HeaderError::ReservedChannels);
    }
    if ss_code == 3 {
        return Err(HeaderError::ReservedSampleSize);
    }
    let (number, used) = match utf8_decode(&data[4..]) {
        Some(x) => x,
        None => return Err(HeaderError::BadNumber),
    };
    if !variable && number >= (1u64 << 31) {
        return Err(HeaderError::BadNumber);
    }
    let mut p = 4 + used;
    let block_size: u32 = if bs_code == 1 {
        192
    } else if bs_code <= 5 {
        576u32 << (bs_code - 2)
    } else if bs_code == 6 {
        if data.len() < p + 1 { return Err(HeaderError::Truncated); }
        let v = data[p] as u32 + 1;
        p += 1;
        v
    } else if bs_code == 7 {
        if data.len() < p + 2 { return Err(HeaderError::Truncated); }
        let v = ((data[p] as u32) << 8 | data[p + 1] as u32) + 1;
        p += 2;
        v
    } else {
        256u32 << (bs_code - 8)
    };
    let sample_rate: Option<u32> = match sr_code {
        0 => None,
        1 => Some(88_200),
        2 => Some(176_400),
        3 => Some(192_000),
        4 => Some(8_000),
        5 => Some(16_000),
        6 => Some(22_050),
        7 => Some(24_000),
        8 => Some(32_000),
        9 => Some(44_100),
        10 => Some(48_000),
        11 => Some(96_000),
        12 => {
            if data.len() < p + 1 { return Err(HeaderError::Truncated); }
            let v = data[p] as u32 * 1000;
            p += 1;
            Some(v)
        }
        13 => {
            if data.len() < p + 2 { return Err(HeaderError::Truncated); }
            let v = (data[p] as u32) << 8 | data[p + 1] as u32;
            p += 2;
            Some(v)
        }
        _ => {
            if data.len() < p + 2 { return Err(HeaderError::Truncated); }
            let v = ((data[p] as u32) << 8 | data[p + 1] as u32) * 10;
            p += 2;
            Some(v)
        }
    };
    let bits: Option<u8> = match ss_code {
        0 => None,
        1 => Some(8),
        2 => Some(12),
        4 => Some(16),
        5 => Some(20),
        6 => Some(24),
        _ => Some(32),
    };
    if data.len() < p + 1 {
        return Err(HeaderError::Truncated);
    }
    if crc8(&data[..p]) != data[p] {
        return Err(HeaderError::Crc);
    }
    Ok(RefHeader { variable, block_size, sample_rate, channels_code: ch_code, bits, number, header_bytes: p + 1 })
}
