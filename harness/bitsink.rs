// Harnesses for C11 (bit sinks = ideal MSB-first bit string).  Included as a child
// module of `flacenc::bitsink` in the shadow crate, so private fields are visible.
//
// Method: one-step lemmas from an ARBITRARY valid pre-state (DESIGN.md 4.2).
// Representation invariant of MemSink<S>:  storage.len() == ceil(bitlength / S::BITS)
// and the bits of the last element beyond `bitlength` are zero.  The abstraction to the
// ideal bit string is "concatenate the elements MSB first, keep the first bitlength bits".
// Each operation is run once from a symbolic pre-state of 0..=2 elements (the first is an
// untouched prefix, the last is the partial element) and the post-state is compared with
// an independent 128-bit-window model; the invariant must hold again.  By induction the
// sink equals the ideal bit string after any finite sequence of operations.

use super::*;

// ---------------------------------------------------------------- models
/// `vv`: the n bits to append, MSB-aligned in a u64 (all lower bits zero).
fn model_u64(pre: &[u64; 2], pre_words: usize, pre_len: usize, vv: u64, n: usize, post: &MemSink<u64>) -> bool {
    let off = pre_len % 64;
    let new_len = pre_len + n;
    let new_words = (new_len + 63) / 64;
    if post.bitlength != new_len || post.storage.len() != new_words {
        return false;
    }
    let mut exp = [pre[0], pre[1], 0u64, 0u64];
    if off != 0 {
        let win: u128 = ((exp[pre_words - 1] as u128) << 64) | ((vv as u128) << (64 - off));
        exp[pre_words - 1] = (win >> 64) as u64;
        exp[pre_words] = win as u64;
    } else {
        exp[pre_words] = vv;
    }
    let mut i = 0;
    while i < 4 {
        if i < new_words && post.storage[i] != exp[i] {
            return false;
        }
        i += 1;
    }
    true
}

fn model_u8(pre: &[u8; 2], pre_bytes: usize, pre_len: usize, vv: u64, n: usize, post: &MemSink<u8>) -> bool {
    let off = pre_len % 8;
    let new_len = pre_len + n;
    let new_bytes = (new_len + 7) / 8;
    if post.bitlength != new_len || post.storage.len() != new_bytes {
        return false;
    }
    // window starts at the first byte that can change
    let (start, win): (usize, u128) = if off != 0 {
        (pre_bytes - 1, ((pre[pre_bytes - 1] as u128) << 120) | ((vv as u128) << (64 - off)))
    } else {
        (pre_bytes, (vv as u128) << 64)
    };
    let mut i = 0;
    while i < start {
        if post.storage[i] != pre[i] {
            return false;
        }
        i += 1;
    }
    let mut j = 0;
    while j < 10 {
        if start + j < new_bytes {
            let b = (win >> (120 - 8 * j)) as u8;
            if post.storage[start + j] != b {
                return false;
            }
        }
        j += 1;
    }
    true
}

fn any_pre_u64_k<const K: usize>() -> (MemSink<u64>, [u64; 2], usize, usize) {
    // the element count is concrete per instantiation (symbolic Vec lengths make CBMC
    // explore the reallocation path of every push: measured 41 s -> 4 s, 550 s -> 6 s)
    let words: usize = K;
    let len: usize = kani::any();
    kani::assume(len <= 128);
    kani::assume((len + 63) / 64 == words);
    let mut w: [u64; 2] = kani::any();
    // invariant: unused low bits of the last word are zero
    if words > 0 && len % 64 != 0 {
        w[words - 1] &= !0u64 << (64 - len % 64);
    }
    let mut storage = Vec::with_capacity(6);
    if words >= 1 { storage.push(w[0]); }
    if words >= 2 { storage.push(w[1]); }
    (MemSink { storage, bitlength: len }, w, words, len)
}

fn any_pre_u8_k<const K: usize>() -> (MemSink<u8>, [u8; 2], usize, usize) {
    let bytes: usize = K;
    let len: usize = kani::any();
    kani::assume(len <= 16);
    kani::assume((len + 7) / 8 == bytes);
    let mut w: [u8; 2] = kani::any();
    if bytes > 0 && len % 8 != 0 {
        w[bytes - 1] &= !0u8 << (8 - len % 8);
    }
    let mut storage = Vec::with_capacity(16);
    if bytes >= 1 { storage.push(w[0]); }
    if bytes >= 2 { storage.push(w[1]); }
    (MemSink { storage, bitlength: len }, w, bytes, len)
}

/// n MSBs of `val` (of width `bits`), MSB-aligned in a u64, lower bits cleared.
fn msb_aligned(val: u64, bits: usize, n: usize) -> u64 {
    if n == 0 { 0 } else { ((val << (64 - bits)) >> (64 - n)) << (64 - n) }
}
fn lsb_aligned(val: u64, n: usize) -> u64 {
    if n == 0 { 0 } else { val << (64 - n) }
}

macro_rules! dispatch_k_nb {
    ($body:ident) => {
        let sel: u8 = kani::any();
        let nbs: u8 = kani::any();
        let c = if sel == 0 {
            if nbs == 0 { $body::<0, 0>() } else if nbs == 1 { $body::<0, 1>() } else if nbs == 2 { $body::<0, 2>() } else { $body::<0, 3>() }
        } else if sel == 1 {
            if nbs == 0 { $body::<1, 0>() } else if nbs == 1 { $body::<1, 1>() } else if nbs == 2 { $body::<1, 2>() } else { $body::<1, 3>() }
        } else {
            if nbs == 0 { $body::<2, 0>() } else if nbs == 1 { $body::<2, 1>() } else if nbs == 2 { $body::<2, 2>() } else { $body::<2, 3>() }
        };
        kani::cover!(c);
    };
}
macro_rules! dispatch_k {
    ($body:ident) => {
        let sel: u8 = kani::any();
        let c = if sel == 0 { $body::<0>() } else if sel == 1 { $body::<1>() } else { $body::<2>() };
        kani::cover!(c);
    };
}

// ---------------------------------------------------------------- generators
macro_rules! step_msbs {
    ($name:ident, $pre:ident, $model:ident, $t:ty, $lo:expr) => {
        #[kani::proof]
        #[kani::unwind(12)]
        fn $name() {
            fn body<const K: usize>() -> bool {
            let (mut s, w, k, len) = $pre::<K>();
            let val: $t = kani::any();
            let n: usize = kani::any();
            kani::assume(n >= $lo && n <= <$t>::BITS as usize);
            let r = s.write_msbs(val, n);
            assert!(r.is_ok());
            assert!($model(&w, k, len, msb_aligned(val as u64, <$t>::BITS as usize, n), n, &s));
            let c = len % 8 != 0 && n > 4 && val != 0;
            std::mem::forget(s);
            c
            }
            dispatch_k!(body);
        }
    };
}
macro_rules! step_lsbs {
    ($name:ident, $pre:ident, $model:ident, $t:ty, $lo:expr) => {
        #[kani::proof]
        #[kani::unwind(12)]
        fn $name() {
            fn body<const K: usize>() -> bool {
            let (mut s, w, k, len) = $pre::<K>();
            let val: $t = kani::any();
            let n: usize = kani::any();
            kani::assume(n >= $lo && n <= <$t>::BITS as usize);
            let r = s.write_lsbs(val, n);
            assert!(r.is_ok());
            assert!($model(&w, k, len, lsb_aligned(val as u64, n), n, &s));
            let c = len % 8 != 0 && n > 4 && val != 0;
            std::mem::forget(s);
            c
            }
            dispatch_k!(body);
        }
    };
}
macro_rules! step_write {
    ($name:ident, $pre:ident, $model:ident, $t:ty) => {
        #[kani::proof]
        #[kani::unwind(12)]
        fn $name() {
            fn body<const K: usize>() -> bool {
            let (mut s, w, k, len) = $pre::<K>();
            let val: $t = kani::any();
            let r = s.write(val);
            assert!(r.is_ok());
            let bits = <$t>::BITS as usize;
            assert!($model(&w, k, len, lsb_aligned(val as u64, bits), bits, &s));
            let c = len % 8 == 3 && val != 0;
            std::mem::forget(s);
            c
            }
            dispatch_k!(body);
        }
    };
}
macro_rules! step_twoc {
    ($name:ident, $pre:ident, $model:ident, $t:ty) => {
        #[kani::proof]
        #[kani::unwind(12)]
        fn $name() {
            fn body<const K: usize>() -> bool {
            let (mut s, w, k, len) = $pre::<K>();
            let val: $t = kani::any();
            let n: usize = kani::any();
            kani::assume(n >= 1 && n <= 64);
            let r = s.write_twoc(val, n);
            assert!(r.is_ok());
            // two's complement field of width n = the n low bits of the sign-extended value
            assert!($model(&w, k, len, lsb_aligned((val as i64) as u64, n), n, &s));
            let c = len % 8 != 0 && val < 0 && n > 9;
            std::mem::forget(s);
            c
            }
            dispatch_k!(body);
        }
    };
}

// ---------------------------------------------------------------- MemSink<u64>
//@ prop: C11
//@ drives: MemSink<u64>::write_msbs::<u8>, MemSink<u64>::write_msbs_impl, MemSink::paddings
//@ bound: any pre-state of 0..=2 words (bit offset 0..63, arbitrary content satisfying the invariant), any value, n = 1..=8
//@ asserts: post-state equals 128-bit window model; length, element count, zero tail
step_msbs!(c11_u64_msbs_u8, any_pre_u64_k, model_u64, u8, 1);
//@ prop: C11
//@ tier: thorough
//@ drives: MemSink<u64>::write_msbs::<u16>
//@ bound: any pre-state of 0..=2 words, any value, n = 1..=16
step_msbs!(c11_u64_msbs_u16, any_pre_u64_k, model_u64, u16, 1);
//@ prop: C11
//@ drives: MemSink<u64>::write_msbs::<u32>
//@ bound: any pre-state of 0..=2 words, any value, n = 1..=32
step_msbs!(c11_u64_msbs_u32, any_pre_u64_k, model_u64, u32, 1);
//@ prop: C11
//@ drives: MemSink<u64>::write_msbs::<u64>
//@ bound: any pre-state of 0..=2 words, any value, n = 1..=64
step_msbs!(c11_u64_msbs_u64, any_pre_u64_k, model_u64, u64, 1);
//@ prop: C11
//@ drives: MemSink<u64>::write_lsbs::<u8>
//@ bound: any pre-state of 0..=2 words, any value, n = 1..=8
step_lsbs!(c11_u64_lsbs_u8, any_pre_u64_k, model_u64, u8, 1);
//@ prop: C11
//@ tier: thorough
//@ drives: MemSink<u64>::write_lsbs::<u16>
//@ bound: any pre-state of 0..=2 words, any value, n = 1..=16
step_lsbs!(c11_u64_lsbs_u16, any_pre_u64_k, model_u64, u16, 1);
//@ prop: C11
//@ drives: MemSink<u64>::write_lsbs::<u32>
//@ bound: any pre-state of 0..=2 words, any value, n = 1..=32
step_lsbs!(c11_u64_lsbs_u32, any_pre_u64_k, model_u64, u32, 1);
//@ prop: C11
//@ drives: MemSink<u64>::write_lsbs::<u64>
//@ bound: any pre-state of 0..=2 words, any value, n = 1..=64
step_lsbs!(c11_u64_lsbs_u64, any_pre_u64_k, model_u64, u64, 1);

// n == 0 on the word sink (documented range of n is 0..=width)
//@ prop: C11
//@ drives: MemSink<u64>::write_msbs::<u8|u32|u64> with n = 0
//@ bound: any pre-state of 0..=2 words, any value, n = 0, operand types u8/u32/u64
//@ asserts: a zero-width write leaves the sink unchanged and does not panic
#[kani::proof]
#[kani::unwind(12)]
fn c11_u64_msbs_zero_width() {
    fn body<const K: usize>() -> bool {
    let (mut s, w, k, len) = any_pre_u64_k::<K>();
    let which: u8 = kani::any();
    let r = match which % 3 {
        0 => s.write_msbs(kani::any::<u8>(), 0),
        1 => s.write_msbs(kani::any::<u32>(), 0),
        _ => s.write_msbs(kani::any::<u64>(), 0),
    };
    assert!(r.is_ok());
    assert!(model_u64(&w, k, len, 0, 0, &s));
    let c = len % 64 == 5;
    std::mem::forget(s);
    c
    }
    dispatch_k!(body);
}
//@ prop: C11
//@ drives: MemSink<u64>::write_lsbs::<u8|u32|u64> with n = 0
//@ bound: any pre-state of 0..=2 words, any value, n = 0, operand types u8/u32/u64
//@ asserts: a zero-width write leaves the sink unchanged and does not panic
#[kani::proof]
#[kani::unwind(12)]
fn c11_u64_lsbs_zero_width() {
    fn body<const K: usize>() -> bool {
    let (mut s, w, k, len) = any_pre_u64_k::<K>();
    let which: u8 = kani::any();
    let r = match which % 3 {
        0 => s.write_lsbs(kani::any::<u8>(), 0),
        1 => s.write_lsbs(kani::any::<u32>(), 0),
        _ => s.write_lsbs(kani::any::<u64>(), 0),
    };
    assert!(r.is_ok());
    assert!(model_u64(&w, k, len, 0, 0, &s));
    let c = len % 64 == 5;
    std::mem::forget(s);
    c
    }
    dispatch_k!(body);
}

//@ prop: C11
//@ drives: MemSink<u64>::write::<u8>
//@ bound: any pre-state of 0..=2 words, any value
step_write!(c11_u64_write_u8, any_pre_u64_k, model_u64, u8);
//@ prop: C11
//@ tier: thorough
//@ drives: MemSink<u64>::write::<u16>
//@ bound: any pre-state of 0..=2 words, any value
step_write!(c11_u64_write_u16, any_pre_u64_k, model_u64, u16);
//@ prop: C11
//@ tier: thorough
//@ drives: MemSink<u64>::write::<u32>
//@ bound: any pre-state of 0..=2 words, any value
step_write!(c11_u64_write_u32, any_pre_u64_k, model_u64, u32);
//@ prop: C11
//@ drives: MemSink<u64>::write::<u64>
//@ bound: any pre-state of 0..=2 words, any value
step_write!(c11_u64_write_u64, any_pre_u64_k, model_u64, u64);

//@ prop: C11
//@ drives: BitSink::write_twoc::<i32> (default method) on MemSink<u64>
//@ bound: any pre-state of 0..=2 words, any i32, field width 1..=64
step_twoc!(c11_u64_twoc_i32, any_pre_u64_k, model_u64, i32);
//@ prop: C11
//@ drives: BitSink::write_twoc::<i64> on MemSink<u64>
//@ bound: any pre-state of 0..=2 words, any i64, field width 1..=64
step_twoc!(c11_u64_twoc_i64, any_pre_u64_k, model_u64, i64);
//@ prop: C11
//@ tier: thorough
//@ drives: BitSink::write_twoc::<i8> on MemSink<u64>
//@ bound: any pre-state of 0..=2 words, any i8, field width 1..=64
step_twoc!(c11_u64_twoc_i8, any_pre_u64_k, model_u64, i8);
//@ prop: C11
//@ tier: thorough
//@ drives: BitSink::write_twoc::<i16> on MemSink<u64>
//@ bound: any pre-state of 0..=2 words, any i16, field width 1..=64
step_twoc!(c11_u64_twoc_i16, any_pre_u64_k, model_u64, i16);

//@ prop: C11
//@ drives: MemSink<u64>::write_zeros
//@ bound: any pre-state of 0..=2 words, n = 0..=70 (0, 1 or 2 appended words)
//@ asserts: length grows by n, old words unchanged, appended words zero, element count = ceil(len/64)
#[kani::proof]
#[kani::unwind(8)]
fn c11_u64_write_zeros() {
    fn body<const K: usize>() -> bool {
    let (mut s, w, k, len) = any_pre_u64_k::<K>();
    let n: usize = kani::any();
    kani::assume(n <= 70);
    assert!(s.write_zeros(n).is_ok());
    let new_len = len + n;
    assert!(s.bitlength == new_len);
    assert!(s.storage.len() == (new_len + 63) / 64);
    let mut i = 0;
    while i < 6 {
        if i < s.storage.len() {
            let e = if i < k { w[i] } else { 0 };
            assert!(s.storage[i] == e);
        }
        i += 1;
    }
    let c = len % 64 == 63 && n == 70;
    std::mem::forget(s);
    c
    }
    dispatch_k!(body);
}

//@ prop: C11
//@ tier: thorough
//@ drives: MemSink<u64>::write_zeros
//@ bound: any pre-state of 0..=2 words, n = 0..=130
//@ asserts: length grows by n, old words unchanged, appended words zero, element count = ceil(len/64)
#[kani::proof]
#[kani::unwind(8)]
fn c11_u64_write_zeros_130() {
    fn body<const K: usize>() -> bool {
    let (mut s, w, k, len) = any_pre_u64_k::<K>();
    let n: usize = kani::any();
    kani::assume(n <= 130);
    assert!(s.write_zeros(n).is_ok());
    let new_len = len + n;
    assert!(s.bitlength == new_len);
    assert!(s.storage.len() == (new_len + 63) / 64);
    let mut i = 0;
    while i < 6 {
        if i < s.storage.len() {
            let e = if i < k { w[i] } else { 0 };
            assert!(s.storage[i] == e);
        }
        i += 1;
    }
    let c = len % 64 == 63 && n == 130;
    std::mem::forget(s);
    c
    }
    dispatch_k!(body);
}

//@ prop: C11
//@ drives: MemSink<u64>::align_to_byte, MemSink::paddings_to_byte
//@ bound: any pre-state of 0..=2 words
//@ asserts: returns (-len) mod 8, length becomes the next multiple of 8, storage unchanged
#[kani::proof]
#[kani::unwind(8)]
fn c11_u64_align() {
    fn body<const K: usize>() -> bool {
    let (mut s, w, k, len) = any_pre_u64_k::<K>();
    let r = s.align_to_byte();
    let pad = (8 - len % 8) % 8;
    assert!(matches!(r, Ok(p) if p == pad));
    assert!(model_u64(&w, k, len, 0, pad, &s));
    let c = pad == 5;
    std::mem::forget(s);
    c
    }
    dispatch_k!(body);
}

//@ prop: C11
//@ drives: MemSink<u64>::write_bytes_aligned, MemSink<u64>::write::<u8>
//@ bound: any pre-state of 0..=2 words, 0..=3 arbitrary bytes
//@ asserts: pads to the byte boundary with zeros, then appends the bytes
#[kani::proof]
#[kani::unwind(8)]
fn c11_u64_bytes_aligned() {
    fn body<const K: usize, const NB: usize>() -> bool {
    let (mut s, w, k, len) = any_pre_u64_k::<K>();
    let bytes: [u8; 3] = kani::any();
    let nb: usize = NB;
    let r = s.write_bytes_aligned(&bytes[..nb]);
    let pad = (8 - len % 8) % 8;
    assert!(matches!(r, Ok(p) if p == pad));
    let mut v: u64 = 0;
    let mut i = 0;
    while i < 3 {
        if i < nb { v |= (bytes[i] as u64) << (56 - 8 * i); }
        i += 1;
    }
    assert!(model_u64(&w, k, len, v >> pad, pad + 8 * nb, &s));
    let c = pad == 3 && nb == 3 && len > 64;
    std::mem::forget(s);
    c
    }
    dispatch_k_nb!(body);
}

// ---------------------------------------------------------------- MemSink<u8>
//@ prop: C11
//@ drives: MemSink<u8>::write_msbs::<u8>
//@ bound: any pre-state of 0..=2 bytes (bit offset 0..7), any value, n = 0..=8
step_msbs!(c11_u8_msbs_u8, any_pre_u8_k, model_u8, u8, 0);
//@ prop: C11
//@ tier: thorough
//@ drives: MemSink<u8>::write_msbs::<u16>
//@ bound: any pre-state of 0..=2 bytes, any value, n = 0..=16
step_msbs!(c11_u8_msbs_u16, any_pre_u8_k, model_u8, u16, 0);
//@ prop: C11
//@ drives: MemSink<u8>::write_msbs::<u32>
//@ bound: any pre-state of 0..=2 bytes, any value, n = 0..=32
step_msbs!(c11_u8_msbs_u32, any_pre_u8_k, model_u8, u32, 0);
//@ prop: C11
//@ drives: MemSink<u8>::write_msbs::<u64>
//@ bound: any pre-state of 0..=2 bytes, any value, n = 0..=64
step_msbs!(c11_u8_msbs_u64, any_pre_u8_k, model_u8, u64, 0);
//@ prop: C11
//@ drives: MemSink<u8>::write_lsbs::<u8>
//@ bound: any pre-state of 0..=2 bytes, any value, n = 0..=8
step_lsbs!(c11_u8_lsbs_u8, any_pre_u8_k, model_u8, u8, 0);
//@ prop: C11
//@ tier: thorough
//@ drives: MemSink<u8>::write_lsbs::<u16>
//@ bound: any pre-state of 0..=2 bytes, any value, n = 0..=16
step_lsbs!(c11_u8_lsbs_u16, any_pre_u8_k, model_u8, u16, 0);
//@ prop: C11
//@ drives: MemSink<u8>::write_lsbs::<u32>
//@ bound: any pre-state of 0..=2 bytes, any value, n = 0..=32
step_lsbs!(c11_u8_lsbs_u32, any_pre_u8_k, model_u8, u32, 0);
//@ prop: C11
//@ drives: MemSink<u8>::write_lsbs::<u64>
//@ bound: any pre-state of 0..=2 bytes, any value, n = 0..=64
step_lsbs!(c11_u8_lsbs_u64, any_pre_u8_k, model_u8, u64, 0);
//@ prop: C11
//@ drives: MemSink<u8>::write::<u8>
//@ bound: any pre-state of 0..=2 bytes, any value
step_write!(c11_u8_write_u8, any_pre_u8_k, model_u8, u8);
//@ prop: C11
//@ tier: thorough
//@ drives: MemSink<u8>::write::<u16>
//@ bound: any pre-state of 0..=2 bytes, any value
step_write!(c11_u8_write_u16, any_pre_u8_k, model_u8, u16);
//@ prop: C11
//@ tier: thorough
//@ drives: MemSink<u8>::write::<u32>
//@ bound: any pre-state of 0..=2 bytes, any value
step_write!(c11_u8_write_u32, any_pre_u8_k, model_u8, u32);
//@ prop: C11
//@ drives: MemSink<u8>::write::<u64>
//@ bound: any pre-state of 0..=2 bytes, any value
step_write!(c11_u8_write_u64, any_pre_u8_k, model_u8, u64);
//@ prop: C11
//@ drives: BitSink::write_twoc::<i32> (default method) on MemSink<u8>
//@ bound: any pre-state of 0..=2 bytes, any i32, field width 1..=64
step_twoc!(c11_u8_twoc_i32, any_pre_u8_k, model_u8, i32);
//@ prop: C11
//@ drives: BitSink::write_twoc::<i64> on MemSink<u8>
//@ bound: any pre-state of 0..=2 bytes, any i64, field width 1..=64
step_twoc!(c11_u8_twoc_i64, any_pre_u8_k, model_u8, i64);

//@ prop: C11
//@ drives: MemSink<u8>::write_zeros
//@ bound: any pre-state of 0..=2 bytes, n = 0..=40
#[kani::proof]
#[kani::unwind(10)]
fn c11_u8_write_zeros() {
    fn body<const K: usize>() -> bool {
    let (mut s, w, k, len) = any_pre_u8_k::<K>();
    let n: usize = kani::any();
    kani::assume(n <= 40);
    assert!(s.write_zeros(n).is_ok());
    let new_len = len + n;
    assert!(s.bitlength == new_len);
    assert!(s.storage.len() == (new_len + 7) / 8);
    let mut i = 0;
    while i < 7 {
        if i < s.storage.len() {
            let e = if i < k { w[i] } else { 0 };
            assert!(s.storage[i] == e);
        }
        i += 1;
    }
    let c = len % 8 == 7 && n == 33;
    std::mem::forget(s);
    c
    }
    dispatch_k!(body);
}

//@ prop: C11
//@ drives: MemSink<u8>::align_to_byte
//@ bound: any pre-state of 0..=2 bytes
#[kani::proof]
#[kani::unwind(12)]
fn c11_u8_align() {
    fn body<const K: usize>() -> bool {
    let (mut s, w, k, len) = any_pre_u8_k::<K>();
    let r = s.align_to_byte();
    let pad = (8 - len % 8) % 8;
    assert!(matches!(r, Ok(p) if p == pad));
    assert!(model_u8(&w, k, len, 0, pad, &s));
    let c = pad == 5;
    std::mem::forget(s);
    c
    }
    dispatch_k!(body);
}

//@ prop: C11
//@ drives: MemSink<u8>::write_bytes_aligned
//@ bound: any pre-state of 0..=2 bytes, 0..=3 arbitrary bytes
#[kani::proof]
#[kani::unwind(12)]
fn c11_u8_bytes_aligned() {
    fn body<const K: usize, const NB: usize>() -> bool {
    let (mut s, w, k, len) = any_pre_u8_k::<K>();
    let bytes: [u8; 3] = kani::any();
    let nb: usize = NB;
    let r = s.write_bytes_aligned(&bytes[..nb]);
    let pad = (8 - len % 8) % 8;
    assert!(matches!(r, Ok(p) if p == pad));
    let mut v: u64 = 0;
    let mut i = 0;
    while i < 3 {
        if i < nb { v |= (bytes[i] as u64) << (56 - 8 * i); }
        i += 1;
    }
    assert!(model_u8(&w, k, len, v >> pad, pad + 8 * nb, &s));
    let c = pad == 3 && nb == 3;
    std::mem::forget(s);
    c
    }
    dispatch_k_nb!(body);
}

// ---------------------------------------------------------------- byte export
//@ prop: C11
//@ drives: MemSink<u64>::write_to_byte_slice
//@ bound: any valid state of 0..=2 words, destination of exactly ceil(len/8) bytes
//@ asserts: byte j of the export = byte j (big endian) of the word string; the unwritten tail bits are zero
#[kani::proof]
#[kani::unwind(18)]
fn c11_u64_export() {
    fn body<const K: usize>() -> bool {
    let (s, w, k, len) = any_pre_u64_k::<K>();
    let nbytes = (len + 7) / 8;
    let mut dest = [0xAAu8; 16];
    s.write_to_byte_slice(&mut dest[..nbytes]);
    let mut j = 0;
    while j < 16 {
        if j < nbytes {
            let e = (w[j / 8] >> (56 - 8 * (j % 8))) as u8;
            assert!(dest[j] == e);
        } else {
            assert!(dest[j] == 0xAA);
        }
        j += 1;
    }
    if len % 8 != 0 {
        assert!(dest[nbytes - 1] & (0xFFu8 >> (len % 8)) == 0);
    }
    let c = len == 77;
    std::mem::forget(s);
    c
    }
    dispatch_k!(body);
}

//@ prop: C11
//@ drives: MemSink<u64>::write_to_byte_slice into a destination LONGER than the stored words (a preallocated buffer)
//@ bound: any valid state of 0..=2 words; destination of 8*words+5 bytes (longer than the content, not a multiple of the word size)
//@ asserts: byte j of the export = byte j (big endian) of the word string for every stored byte (so the unwritten tail bits read as zero), and every destination byte beyond the stored words is left untouched
#[kani::proof]
#[kani::unwind(26)]
fn c11_u64_export_longer_destination() {
    fn body<const K: usize>() -> bool {
    let (s, w, _k, len) = any_pre_u64_k::<K>();
    let mut dest = [0xAAu8; 24];
    s.write_to_byte_slice(&mut dest[..8 * K + 5]);
    let mut j = 0;
    while j < 24 {
        if j < 8 * K {
            let e = (w[j / 8] >> (56 - 8 * (j % 8))) as u8;
            assert!(dest[j] == e);
        } else {
            assert!(dest[j] == 0xAA);
        }
        j += 1;
    }
    let c = len == 77;
    std::mem::forget(s);
    c
    }
    dispatch_k!(body);
}

//@ prop: C11
//@ drives: MemSink<u8>::write_to_byte_slice, MemSink<u8>::as_slice
//@ bound: any valid state of 0..=2 bytes
#[kani::proof]
#[kani::unwind(6)]
fn c11_u8_export() {
    fn body<const K: usize>() -> bool {
    let (s, w, k, len) = any_pre_u8_k::<K>();
    let mut dest = [0xAAu8; 2];
    s.write_to_byte_slice(&mut dest[..k]);
    let sl = s.as_slice();
    assert!(sl.len() == k);
    let mut j = 0;
    while j < 2 {
        if j < k {
            assert!(dest[j] == w[j] && sl[j] == w[j]);
        }
        j += 1;
    }
    if len % 8 != 0 {
        assert!(dest[k - 1] & (0xFFu8 >> (len % 8)) == 0);
    }
    let c = len == 13;
    std::mem::forget(s);
    c
    }
    dispatch_k!(body);
}

// ---------------------------------------------------------------- constructors establish the invariant
//@ prop: C11
//@ drives: MemSink::new, MemSink::with_capacity, MemSink::clear
//@ bound: capacity 0..=200 bits; clear from any valid state
//@ asserts: length 0 and no elements (the base case of the induction)
#[kani::proof]
#[kani::unwind(6)]
fn c11_constructors() {
    let a = MemSink::<u64>::new();
    assert!(a.bitlength == 0 && a.storage.is_empty());
    let cap: usize = kani::any();
    kani::assume(cap <= 200);
    let b = MemSink::<u8>::with_capacity(cap);
    assert!(b.bitlength == 0 && b.storage.is_empty());
    let (mut s, _w, _k, len) = any_pre_u64_k::<2>();
    s.clear();
    assert!(s.bitlength == 0 && s.storage.is_empty() && s.is_empty() && s.len() == 0);
    kani::cover!(len == 100);
}

// ---------------------------------------------------------------- default trait methods on a user sink
/// Counting-only user sink: tracks nothing but the number of bits it is given.
pub(crate) struct CountSink {
    pub len: usize,
}
impl BitSink for CountSink {
    type Error = std::convert::Infallible;
    fn align_to_byte(&mut self) -> Result<usize, Self::Error> {
        let pad = (8 - self.len % 8) % 8;
        self.len += pad;
        Ok(pad)
    }
    fn write_lsbs<T: Bits>(&mut self, _val: T, n: usize) -> Result<(), Self::Error> {
        self.len += n;
        Ok(())
    }
    fn write_msbs<T: Bits>(&mut self, _val: T, n: usize) -> Result<(), Self::Error> {
        self.len += n;
        Ok(())
    }
    fn write<T: Bits>(&mut self, _val: T) -> Result<(), Self::Error> {
        self.len += 8 * std::mem::size_of::<T>();
        Ok(())
    }
    // (the default method loops n/64 times; it is covered by c11_user_sink_defaults)
    fn write_zeros(&mut self, n: usize) -> Result<(), Self::Error> {
        self.len += n;
        Ok(())
    }
}

/// Minimal user sink: implements only the four required methods, records the bits in a
/// fixed 512-bit accumulator (no heap), can be told to fail on its k-th operation.
pub(crate) struct RecSink {
    pub words: [u64; 8], // MSB first
    pub len: usize,
    pub ops: usize,
    pub fail_at: usize, // operation index at which to fail (usize::MAX = never)
}
#[derive(Debug)]
pub(crate) struct RecErr;
impl std::fmt::Display for RecErr {
    fn fmt(&self, _f: &mut std::fmt::Formatter<'_>) -> std::fmt::Result { Ok(()) }
}
impl std::error::Error for RecErr {}
impl RecSink {
    pub const CAP: usize = 512;
    pub fn new(fail_at: usize) -> Self { Self { words: [0; 8], len: 0, ops: 0, fail_at } }
    fn tick(&mut self) -> Result<(), RecErr> {
        let k = self.ops;
        self.ops += 1;
        if k == self.fail_at { Err(RecErr) } else { Ok(()) }
    }
    /// append the n MSBs of vv (n <= 64)
    pub fn put(&mut self, vv: u64, n: usize) {
        if n == 0 { return; }
        let vv = (vv >> (64 - n)) << (64 - n);
        let w = self.len / 64;
        let off = self.len % 64;
        assert!(self.len + n <= Self::CAP);
        self.words[w] |= vv >> off;
        if off + n > 64 {
            self.words[w + 1] |= vv << (64 - off);
        }
        self.len += n;
    }
    /// the first 128 bits as one integer (for the default-method harness)
    pub fn hi(&self) -> u128 { ((self.words[0] as u128) << 64) | self.words[1] as u128 }
    /// bit i (0 = first bit written)
    pub fn bit(&self, i: usize) -> bool { (self.words[i / 64] >> (63 - i % 64)) & 1 == 1 }
    /// byte j of the recorded string
    pub fn byte(&self, j: usize) -> u8 { (self.words[j / 8] >> (56 - 8 * (j % 8))) as u8 }
    /// true iff self's recorded bits are a prefix of other's
    pub fn is_prefix_of(&self, other: &RecSink) -> bool {
        if self.len > other.len { return false; }
        let mut i = 0;
        let mut ok = true;
        while i < 8 {
            let lo = i * 64;
            if self.len >= lo + 64 {
                if self.words[i] != other.words[i] { ok = false; }
            } else if self.len > lo {
                let keep = self.len - lo;
                let mask = !0u64 << (64 - keep);
                if self.words[i] != (other.words[i] & mask) { ok = false; }
            } else if self.words[i] != 0 {
                ok = false;
            }
            i += 1;
        }
        ok
    }
}
impl BitSink for RecSink {
    type Error = RecErr;
    fn align_to_byte(&mut self) -> Result<usize, RecErr> {
        self.tick()?;
        let pad = (8 - self.len % 8) % 8;
        self.put(0, pad);
        Ok(pad)
    }
    fn write_lsbs<T: Bits>(&mut self, val: T, n: usize) -> Result<(), RecErr> {
        self.tick()?;
        let v: u64 = val.into();
        if n > 0 { self.put(v << (64 - n), n); }
        Ok(())
    }
    fn write_msbs<T: Bits>(&mut self, val: T, n: usize) -> Result<(), RecErr> {
        self.tick()?;
        let v: u64 = val.into();
        self.put(v << (64 - 8 * std::mem::size_of::<T>()), n);
        Ok(())
    }
    fn write<T: Bits>(&mut self, val: T) -> Result<(), RecErr> {
        self.tick()?;
        let v: u64 = val.into();
        let b = 8 * std::mem::size_of::<T>();
        self.put(v << (64 - b), b);
        Ok(())
    }
}

//@ prop: C11
//@ drives: BitSink::write_bytes_aligned, BitSink::write_twoc, BitSink::write_zeros (default methods) on a user sink implementing only the required methods
//@ bound: user sink holding 0..=20 arbitrary prior bits; 0..=3 bytes; twoc any i32 width 1..=32; zeros 0..=130
//@ asserts: the user sink receives exactly the model bits (same as MemSink semantics)
#[kani::proof]
#[kani::unwind(8)]
fn c11_user_sink_defaults() {
    let mut s = RecSink::new(usize::MAX);
    let pre: usize = kani::any();
    kani::assume(pre <= 20);
    let prev: u64 = kani::any();
    s.put(prev, pre);
    let hi0 = s.hi();
    let which: u8 = kani::any();
    if which == 0 {
        let bytes: [u8; 3] = kani::any();
        let nb: usize = kani::any();
        kani::assume(nb <= 3);
        let r = s.write_bytes_aligned(&bytes[..nb]);
        let pad = (8 - pre % 8) % 8;
        assert!(matches!(r, Ok(p) if p == pad));
        assert!(s.len == pre + pad + 8 * nb);
        let mut v: u128 = 0;
        let mut i = 0;
        while i < 3 {
            if i < nb { v |= (bytes[i] as u128) << (120 - 8 * i); }
            i += 1;
        }
        assert!(s.hi() == hi0 | (v >> (pre + pad)));
        kani::cover!(nb == 3 && pad == 1);
    } else if which == 1 {
        let val: i32 = kani::any();
        let n: usize = kani::any();
        kani::assume(n >= 1 && n <= 32);
        assert!(s.write_twoc(val, n).is_ok());
        assert!(s.len == pre + n);
        let field = ((val as i64 as u64) << (64 - n)) as u128;
        assert!(s.hi() == hi0 | ((field << 64) >> pre));
        kani::cover!(val < 0 && n == 17);
    } else {
        let n: usize = kani::any();
        kani::assume(n <= 130);
        assert!(s.write_zeros(n).is_ok());
        assert!(s.len == pre + n);
        assert!(s.hi() == hi0 && s.words[2] == 0 && s.words[3] == 0);
        kani::cover!(n == 129);
    }
}

// ---------------------------------------------------------------- vacuity twin
//@ prop: C11
//@ expect: fail
//@ drives: (reachability witness) any_pre_u64 + write_msbs::<u32>
//@ bound: same as c11_u64_msbs_u32
#[kani::proof]
#[kani::unwind(12)]
fn c11_vacuity_twin() {
    let (mut s, w, k, len) = any_pre_u64_k::<2>();
    let val: u32 = kani::any();
    let n: usize = kani::any();
    kani::assume(n >= 1 && n <= 32);
    let _ = s.write_msbs(val, n);
    kani::assume(model_u64(&w, k, len, msb_aligned(val as u64, 32, n), n, &s));
    assert!(false);
}
