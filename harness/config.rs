// Harnesses for C07 (configuration verification is exact).  Child module of
// `flacenc::config`.

use super::*;

pub(crate) fn fmt_stub(_args: std::fmt::Arguments<'_>) -> String {
    String::new()
}

/// The documented ranges, written out with the literal numbers of the property
/// statement (NOT the crate's constants, so a changed constant is detected).
fn spec(c: &Encoder) -> bool {
    let block = c.block_size >= 32 && c.block_size <= 32767;
    let fixed_order = c.subframe_coding.fixed.max_order <= 4;
    let order_sel = match c.subframe_coding.fixed.order_sel {
        OrderSel::BitCount => true,
        OrderSel::ApproxEnt { partitions } => partitions >= 1 && partitions <= 64,
    };
    let q = &c.subframe_coding.qlpc;
    let lpc_order = q.lpc_order >= 1 && q.lpc_order <= 24;
    let precision = q.quant_precision >= 1 && q.quant_precision <= 15;
    let experimental = cfg!(feature = "experimental") || (!q.use_direct_mse && q.mae_optimization_steps == 0);
    let window = match q.window {
        Window::Rectangle => true,
        Window::Tukey { alpha } => !alpha.is_nan() && alpha >= 0.0 && alpha <= 1.0,
    };
    let prc = c.subframe_coding.prc.max_parameter <= 14;
    block && fixed_order && order_sel && lpc_order && precision && experimental && window && prc
}

fn any_encoder() -> Encoder {
    let workers: usize = kani::any();
    Encoder {
        block_size: kani::any(),
        multithread: kani::any(),
        workers: NonZeroUsize::new(workers),
        stereo_coding: StereoCoding {
            use_leftside: kani::any(),
            use_rightside: kani::any(),
            use_midside: kani::any(),
        },
        subframe_coding: SubFrameCoding {
            use_constant: kani::any(),
            use_fixed: kani::any(),
            use_lpc: kani::any(),
            fixed: Fixed {
                max_order: kani::any(),
                order_sel: if kani::any() {
                    OrderSel::BitCount
                } else {
                    OrderSel::ApproxEnt { partitions: kani::any() }
                },
            },
            qlpc: Qlpc {
                lpc_order: kani::any(),
                quant_precision: kani::any(),
                use_direct_mse: kani::any(),
                mae_optimization_steps: kani::any(),
                window: if kani::any() {
                    Window::Rectangle
                } else {
                    Window::Tukey { alpha: kani::any() }
                },
            },
            prc: Prc { max_parameter: kani::any() },
        },
    }
}

//@ prop: C07
//@ drives: config::Encoder::verify, StereoCoding::verify, SubFrameCoding::verify, Fixed::verify, OrderSel::verify, Qlpc::verify, Window::verify, Prc::verify, error::verify_range!/verify_true!, VerifyError::within
//@ bound: all 17 configuration fields free over their whole machine range (usize, bool, f32 incl. NaN/inf/-0.0, Option<NonZeroUsize>), both enum variants; no loop bound needed beyond string handling of the (stubbed) messages
//@ asserts: verify().is_ok() if and only if every field lies in its documented range (literal numbers of the property statement)
//@ stubs: alloc::fmt::format -> empty string (message text is irrelevant)
//@ oracle: c07_oracle_boundary_grid
#[kani::proof]
#[kani::unwind(10)]
#[kani::stub(alloc::fmt::format, fmt_stub)]
fn c07_verify_iff_spec() {
    let c = any_encoder();
    let r = c.verify();
    let ok = r.is_ok();
    // the Err value owns a Vec<String>; its drop glue explodes in CBMC (measured: OOM at 62 GB)
    std::mem::forget(r);
    let want = spec(&c);
    assert!(ok == want);
    kani::cover!(ok);
    kani::cover!(!ok && c.block_size == 4096);
    std::mem::forget(c);
}

//@ prop: C07
//@ drives: error::Verify::into_verified for config::Encoder, Verified::deref
//@ bound: all 17 fields free
//@ asserts: into_verified() succeeds iff spec holds, and the wrapped value is the unmodified configuration
//@ stubs: alloc::fmt::format -> empty string
//@ oracle: c07_oracle_boundary_grid
#[kani::proof]
#[kani::unwind(10)]
#[kani::stub(alloc::fmt::format, fmt_stub)]
fn c07_into_verified_iff_spec() {
    let c = any_encoder();
    let want = spec(&c);
    let (bs, mo, mp) = (c.block_size, c.subframe_coding.fixed.max_order, c.subframe_coding.prc.max_parameter);
    match c.into_verified() {
        Ok(v) => {
            assert!(want);
            assert!(v.block_size == bs && v.subframe_coding.fixed.max_order == mo && v.subframe_coding.prc.max_parameter == mp);
            kani::cover!(true);
            std::mem::forget(v);
        }
        Err(_e) => {
            assert!(!want);
            std::mem::forget(_e);
        }
    }
}

//@ prop: C07
//@ drives: Default for Encoder/StereoCoding/SubFrameCoding/Fixed/Qlpc/Prc/Window/OrderSel
//@ bound: none (concrete)
//@ asserts: the default configuration satisfies the documented ranges and is accepted
//@ stubs: alloc::fmt::format -> empty string
#[kani::proof]
#[kani::unwind(10)]
#[kani::stub(alloc::fmt::format, fmt_stub)]
fn c07_default_is_valid() {
    let c = Encoder::default();
    assert!(spec(&c));
    let r = c.verify();
    assert!(r.is_ok());
    std::mem::forget(r);
    kani::cover!(c.block_size == 4096);
}

//@ prop: C07
//@ expect: fail
//@ drives: (reachability witness) Encoder::verify accepting path
//@ bound: as c07_verify_iff_spec
//@ stubs: alloc::fmt::format -> empty string
#[kani::proof]
#[kani::unwind(10)]
#[kani::stub(alloc::fmt::format, fmt_stub)]
fn c07_vacuity_twin() {
    let c = any_encoder();
    let r = c.verify();
    kani::assume(r.is_ok());
    std::mem::forget(r);
    kani::assume(spec(&c));
    assert!(false);
}
