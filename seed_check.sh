#!/bin/bash
# Runs the check of property $2 (default: the seed's own property) against the seeded worktree $1.
id=$1; prop=${2:-$1}; shift; shift
VERIF_REPO=/tmp/seed/$id VERIF_TAG=-mut$id python3 /verif/check.py $prop --no-evidence "$@" 2>&1 | grep -E "VIOLATION|^\[$prop\] tier|FAILED in|UNDECIDED|^error" | cut -c1-260 | head -8
