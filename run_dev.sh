#!/bin/bash
# Development helper: solver runs only (no replay, no evidence), one log per property.
mkdir -p /tmp/exp/rundev
for p in "$@"; do
  VERIF_NO_REPLAY=1 python3 /verif/check.py $p --no-evidence --timeout ${T:-600} > /tmp/exp/rundev/$p.log 2>&1
  echo "$p exit=$? $(tail -1 /tmp/exp/rundev/$p.log)"
  grep -E "^  c|^error" /tmp/exp/rundev/$p.log | grep -v "holds within bound\|as required" | cut -c1-300
done
