#!/usr/bin/env python3
"""Solver-based (Kani/CBMC) check runner for flacenc-rs.  See DESIGN.md section 2.

    check.py <PROP> [--tier quick|thorough] [--only <substr>] [--keep] [--jobs N]
    check.py --replay <path>            re-run a stored counterexample natively
    check.py --list [PROP]

Every run
  1. builds a *shadow crate* from /repo's current working tree (real sources,
     harness modules appended as `#[cfg(kani)] mod verif_kani { include!(..) }`),
  2. runs `cargo kani` (CBMC + CaDiCaL) on the harnesses of the property,
  3. for every failed harness extracts the solver's counterexample
     (`--concrete-playback=print`) and replays it natively against the real
     code (dev and release profile) before printing a VIOLATION line,
  4. writes /verif/evidence/<PROP>.json from the harness registry + Kani's JSON.

Exit status: 0 = every decided harness held (known findings are printed as
KNOWN-FINDING lines); 1 = a reproduced violation (VIOLATION line printed);
2 = cannot decide (harness does not compile, nothing finished, counterexample
did not reproduce natively).
"""
import argparse
import hashlib
import json
import os
import re
import shutil
import subprocess
import sys
import tempfile
import time

VERIF = os.path.dirname(os.path.abspath(__file__))
REPO = os.environ.get("VERIF_REPO", "/repo")
HARNESS_DIR = os.path.join(VERIF, "harness")
CACHE = os.environ.get("VERIF_CACHE", os.path.join(VERIF, ".cache"))
EVIDENCE_DIR = os.path.join(VERIF, "evidence")
REPLAY_DIR = os.path.join(VERIF, "replays")
KNOWN = os.path.join(VERIF, "known_findings.json")

TIER_TIMEOUT = {"quick": 600, "thorough": 2400}      # per harness, seconds
MEM_LIMIT_KB = int(os.environ.get("VERIF_CBMC_MEM_GB", "12")) * 1024 * 1024   # per cbmc process (RSS, watchdog)

THREAD_MODEL = r'''
#[cfg(kani)]
#[allow(unused)]
pub(crate) mod verif_thread_model {
    pub struct JoinHandle<T>(std::marker::PhantomData<T>);
    impl<T> JoinHandle<T> {
        pub fn join(self) -> Result<T, Box<dyn std::any::Any + Send + 'static>> {
            panic!("threads are outside the model")
        }
    }
    pub fn spawn<F, T>(_f: F) -> JoinHandle<T>
    where
        F: FnOnce() -> T + Send + 'static,
        T: Send + 'static,
    {
        panic!("threads are outside the model")
    }
    pub fn sleep(_d: std::time::Duration) {}
}
'''

REUSABLE_MODEL = r'''
// ---- inserted by /verif/check.py (cfg(kani) only): model of `reusable!` ----
// Kani 0.68 crashes (intrinsics.rs:243) on std's lazily initialised
// `thread_local!` of a type with drop glue.  Single-threaded harnesses see the
// same semantics from a lazily initialised leaked global `RefCell`.
#[cfg(kani)]
pub(crate) struct KaniReusable<T: 'static> {
    slot: std::cell::UnsafeCell<Option<&'static std::cell::RefCell<T>>>,
    init: fn() -> T,
}
#[cfg(kani)]
unsafe impl<T> Sync for KaniReusable<T> {}
#[cfg(kani)]
impl<T> KaniReusable<T> {
    pub(crate) const fn new(init: fn() -> T) -> Self {
        Self { slot: std::cell::UnsafeCell::new(None), init }
    }
    pub(crate) fn with<R>(&'static self, f: impl FnOnce(&std::cell::RefCell<T>) -> R) -> R {
        let slot = unsafe { &mut *self.slot.get() };
        if slot.is_none() {
            *slot = Some(Box::leak(Box::new(std::cell::RefCell::new((self.init)()))));
        }
        f(slot.unwrap())
    }
}
#[cfg(kani)]
macro_rules! reusable {
    ($key:ident: $t:ty) => {
        static $key: crate::KaniReusable<$t> = crate::KaniReusable::new(|| Default::default());
    };
    ($key:ident: $t:ty = $init:expr) => {
        static $key: crate::KaniReusable<$t> = crate::KaniReusable::new(|| $init);
    };
}
// ---- end of inserted model ----
'''


def log(*a):
    print(*a, flush=True)


# --------------------------------------------------------------------------
# registry: parsed from `//@ key: value` comment blocks in /verif/harness
# --------------------------------------------------------------------------
def harness_files():
    out = []
    for root, _dirs, files in os.walk(HARNESS_DIR):
        rel = os.path.relpath(root, HARNESS_DIR)
        if rel.split(os.sep)[0] in ("ref", "native"):
            continue
        for f in sorted(files):
            if f.endswith(".rs"):
                out.append(os.path.normpath(os.path.join(rel, f)))
    return sorted(out)


def module_path(relfile):
    parts = relfile[:-3].split(os.sep)
    return "::".join(parts + ["verif_kani"])


NAME_RE = re.compile(r"^\s*(?:pub(?:\([a-z]+\))?\s+)?fn\s+(c\d\d_\w+)|^\s*\w+!\s*[\(\{]\s*(c\d\d_\w+)")


def load_registry():
    reg = {}
    for rel in harness_files():
        lines = open(os.path.join(HARNESS_DIR, rel)).read().split("\n")
        meta = None
        for ln in lines:
            s = ln.strip()
            if s.startswith("//@"):
                if meta is None:
                    meta = {}
                body = s[3:].strip()
                if ":" in body:
                    k, v = body.split(":", 1)
                    k = k.strip()
                    v = v.strip()
                    if k in meta:
                        meta[k] += " " + v
                    else:
                        meta[k] = v
                continue
            if meta is None:
                continue
            if s.startswith("#[") or s.startswith("//") or s == "":
                continue
            m = NAME_RE.match(ln)
            if m:
                name = m.group(1) or m.group(2)
                meta["name"] = name
                meta["file"] = rel
                meta["fq"] = module_path(rel) + "::" + name
                meta.setdefault("tier", "quick")
                meta.setdefault("prop", "C" + name[1:3])
                if name in reg:
                    raise SystemExit("duplicate harness name " + name)
                reg[name] = meta
            meta = None
    return reg


# --------------------------------------------------------------------------
# shadow crate
# --------------------------------------------------------------------------
def file_needs(rel):
    txt = open(os.path.join(HARNESS_DIR, rel)).read()
    out = []
    for m in re.finditer(r"^//@file-needs:(.*)$", txt, re.M):
        out += [x.strip() for x in m.group(1).split(",") if x.strip()]
    return out


def closure_of(files):
    """Harness files to include: the given ones plus their `//@file-needs:` closure.  Only
    these are appended to the shadow sources, so a harness file that no longer compiles
    against an edited /repo cannot disturb the checks of other properties."""
    todo, seen = list(files), []
    while todo:
        f = os.path.normpath(todo.pop())
        if f in seen:
            continue
        seen.append(f)
        todo += file_needs(f)
    return sorted(seen)


def make_shadow(tmp, only_files=None):
    sh = os.path.join(tmp, "shadow")
    os.makedirs(sh)
    shutil.copytree(os.path.join(REPO, "src"), os.path.join(sh, "src"))
    for f in ("Cargo.toml", "Cargo.lock", "build.rs", "README.md"):
        src = os.path.join(REPO, f)
        if f == "Cargo.lock" and not os.path.exists(src):
            # Cargo.lock is git-ignored in /repo: a scratch worktree does not have it
            src = os.path.join(HARNESS_DIR, "Cargo.lock.fallback")
        shutil.copy(src, os.path.join(sh, f))
    with open(os.path.join(sh, "Cargo.toml"), "a") as fh:
        fh.write("\n[workspace]\n\n[lints.rust]\nunexpected_cfgs = { level = \"allow\" }\n")
    # harness copies live inside the shadow so that replays can be appended
    hdst = os.path.join(sh, "verif_harness")
    shutil.copytree(HARNESS_DIR, hdst)
    for rel in (closure_of(only_files) if only_files else harness_files()):
        src = os.path.join(sh, "src", rel)
        if not os.path.exists(src):
            print("UNDECIDED: %s no longer exists in /repo/src" % rel)
            sys.exit(2)
        with open(src, "a") as fh:
            nat = os.path.join(hdst, "native", rel)
            if os.path.exists(nat):
                fh.write('\n#[cfg(test)]\n#[allow(unused, clippy::all, clippy::pedantic, clippy::nursery)]\n'
                         'mod verif_native {\n    include!("%s");\n}\n' % nat)
            fh.write('\n#[cfg(kani)]\n#[allow(unused, clippy::all, clippy::pedantic, clippy::nursery)]\n'
                     'pub(crate) mod verif_kani {\n    include!("%s");\n}\n' % os.path.join(hdst, rel))
    lib = os.path.join(sh, "src", "lib.rs")
    s = open(lib).read()
    anchor = "pub(crate) mod arrayutils;"
    if anchor not in s:
        print("UNDECIDED: lib.rs anchor for reusable! model not found")
        sys.exit(2)
    refmods = ""
    refdir = os.path.join(hdst, "ref")
    if os.path.isdir(refdir):
        refmods = '#[cfg(kani)]\n#[allow(unused, clippy::all, clippy::pedantic, clippy::nursery)]\npub(crate) mod verif_ref {\n'
        for f in sorted(os.listdir(refdir)):
            if f.endswith(".rs"):
                refmods += '    pub(crate) mod %s { include!("%s"); }\n' % (f[:-3], os.path.join(refdir, f))
        refmods += "}\n"
    s = s.replace(anchor, REUSABLE_MODEL + refmods + anchor, 1)
    open(lib, "w").write(s)
    # par.rs: Kani 0.68 has no thread model and crashes on std::thread / crossbeam code.  Under
    # cfg(kani) `thread` is a model whose `spawn` is an assertion failure ("threads are outside
    # the model"): harnesses on par.rs may only claim the sequential code before the first spawn.
    par = os.path.join(sh, "src", "par.rs")
    if os.path.exists(par):
        ps = open(par).read()
        if "use std::thread;" in ps:
            ps = ps.replace("use std::thread;", "#[cfg(not(kani))]\nuse std::thread;\n#[cfg(kani)]\nuse self::verif_thread_model as thread;", 1)
            ps += THREAD_MODEL
            open(par, "w").write(ps)
    return sh


def kani_env():
    env = dict(os.environ)
    env["CARGO_NET_OFFLINE"] = "true"
    env.pop("RUSTUP_TOOLCHAIN", None)
    env.pop("RUSTFLAGS", None)
    return env


def _descendants(pid):
    out = subprocess.run(["ps", "-eo", "pid=,ppid=,rss=,comm="], capture_output=True, text=True).stdout
    rows = []
    for ln in out.split("\n"):
        f = ln.split(None, 3)
        if len(f) == 4:
            rows.append((int(f[0]), int(f[1]), int(f[2]), f[3]))
    kids = {}
    for r in rows:
        kids.setdefault(r[1], []).append(r)
    res, stack = [], [pid]
    while stack:
        for r in kids.get(stack.pop(), []):
            res.append(r)
            stack.append(r[0])
    return res


def run(cmd, cwd, logf, timeout=None, limit_mem=True):
    """Runs cmd with output to logf.  A watchdog kills any descendant `cbmc` whose resident
    set exceeds MEM_LIMIT_KB (an `ulimit -v` would also hit kani-driver, which buffers the
    solver output of all parallel harnesses); Kani then reports that harness as failed
    without results and the runner records it as undecided."""
    import threading
    with open(logf, "w") as fh:
        p = subprocess.Popen(cmd, cwd=cwd, stdout=fh, stderr=subprocess.STDOUT, env=kani_env(),
                             start_new_session=True)
        stop = threading.Event()

        def watch():
            while not stop.wait(4.0):
                try:
                    for pid, _pp, rss, comm in _descendants(p.pid):
                        if limit_mem and comm.startswith("cbmc") and rss > MEM_LIMIT_KB:
                            os.kill(pid, 9)
                            KILLED_OOM.append(pid)
                except Exception:
                    pass
        th = threading.Thread(target=watch, daemon=True)
        th.start()
        try:
            rc = p.wait(timeout=timeout)
        except subprocess.TimeoutExpired:
            try:
                os.killpg(p.pid, 9)
            except Exception:
                pass
            p.wait()
            rc = 124
        stop.set()
        return rc


KILLED_OOM = []


def repo_state():
    try:
        head = subprocess.run(["git", "-C", REPO, "rev-parse", "HEAD"], capture_output=True, text=True).stdout.strip()
        dirty = subprocess.run(["git", "-C", REPO, "status", "--porcelain", "--", "src", "Cargo.toml"],
                               capture_output=True, text=True).stdout.strip()
        return head + ("+dirty" if dirty else "")
    except Exception:
        return "unknown"


def src_digest():
    h = hashlib.sha256()
    for root, _d, files in sorted(os.walk(os.path.join(REPO, "src"))):
        for f in sorted(files):
            p = os.path.join(root, f)
            h.update(p.encode())
            h.update(open(p, "rb").read())
    return h.hexdigest()[:16]


# --------------------------------------------------------------------------
# running kani
# --------------------------------------------------------------------------
def feature_args(features):
    """`//@ features: nopar` builds the crate without the `par` feature (Kani 0.68 crashes,
    intrinsics.rs:243, on code that can reach std::thread / crossbeam: the single-thread
    encode loop is the same code in both builds)."""
    if features == "nopar":
        return ["--no-default-features", "--features", "log,serde,decode"]
    return ["--features", "decode"]


def kani_invoke(sh, fqs, out_json, logf, timeout_s, jobs, target_dir, extra=None, cbmc_args=None, stubbing=True, features=""):
    cmd = ["cargo", "kani", "--target-dir", target_dir] + feature_args(features) + [
           "-Z", "unstable-options", "--harness-timeout", "%ds" % timeout_s,
           "--export-json", out_json, "--output-format", "terse", "-j", str(jobs), "--exact"]
    if stubbing:
        cmd += ["-Z", "stubbing"]
    for fq in fqs:
        cmd += ["--harness", fq]
    if extra:
        cmd += extra
    if cbmc_args:
        cmd += ["--cbmc-args"] + cbmc_args
    wall = timeout_s * (2 + len(fqs) // max(1, jobs)) + 900
    return run(cmd, sh, logf, timeout=wall)


def parse_results(out_json):
    if not os.path.exists(out_json):
        return None
    try:
        d = json.load(open(out_json))
    except Exception:
        return None
    res = {}
    err = {e["harness_id"]: e for e in d.get("error_details", [])}
    props = {e["harness_id"]: e["property_details"] for e in d.get("property_details", [])}
    cb = {e["harness_id"]: e for e in d.get("cbmc", [])}
    for r in d.get("verification_results", {}).get("results", []):
        hid = r["harness_id"]
        failed = [c for c in r.get("checks", []) if c.get("status") in ("Failure", "FAILURE")]
        unsat_covers = [c for c in r.get("checks", []) if c.get("status") in ("Unsatisfiable", "UNSATISFIABLE", "Unreachable", "UNREACHABLE") and c.get("category") == "cover"]
        res[hid] = {
            "status": r["status"],
            "duration_s": r.get("duration_ms", 0) / 1000.0,
            "exit_status": err.get(hid, {}).get("exit_status"),
            "props": props.get(hid) or {},
            "cbmc_stats": (cb.get(hid) or {}).get("cbmc_stats") or {},
            "failed_checks": [{"description": c.get("description"), "function": c.get("function"),
                               "file": os.path.basename((c.get("location") or {}).get("file") or ""),
                               "line": (c.get("location") or {}).get("line")} for c in failed],
            "unsat_covers": [c.get("description") for c in unsat_covers],
        }
    return res


def extract_playback_batch(sh, metas, target_dir, logdir, timeout_s, jobs):
    """Re-run the failed harnesses with concrete playback (one cargo-kani invocation per
    cbmc-args group) and return {harness name: [generated test text, ...]}."""
    out = {}
    groups = {}
    for m in metas:
        groups.setdefault((m.get("cbmc_args", ""), m.get("features", "")), []).append(m)
    for gi, ((cargs, feats), ms) in enumerate(sorted(groups.items())):
        logf = os.path.join(logdir, "playback_%d.log" % gi)
        cmd = ["cargo", "kani", "--target-dir", target_dir + ("-" + feats if feats else "")] + feature_args(feats) + [
               "-Z", "unstable-options", "-Z", "stubbing", "--harness-timeout", "%ds" % (3 * timeout_s),
               "-Z", "concrete-playback", "--concrete-playback=print", "--exact",
               "--output-format", "terse"]  # (concrete playback is incompatible with --jobs)
        for m in ms:
            cmd += ["--harness", m["fq"]]
        if cargs:
            cmd += ["--cbmc-args"] + cargs.split()
        # trace generation needs more time and memory than the plain check: no ulimit here
        run(cmd, sh, logf, timeout=3 * timeout_s * (1 + len(ms)) + 600, limit_mem=False)
        txt = open(logf).read()
        for mm in re.finditer(r"Concrete playback unit test for `([^`]+)`:\s*```\n(.*?)```", txt, re.S):
            fq, body = mm.group(1), mm.group(2)
            name = fq.split("::")[-1]
            if "kani::concrete_playback_run" in body:
                out.setdefault(name, [])
                if body not in out[name]:
                    out[name].append(body)
    return out


def native_replay_batch(sh, reg_by_name, tests_by_harness, logdir):
    """Append the generated tests to the shadow copies of the harness files and run them
    natively against the real code (`cargo kani playback`), dev and release profile.
    Returns {harness: {test name: {"dev": reproduced?, "release": reproduced?}}}."""
    owner = {}
    for hname, tests in tests_by_harness.items():
        meta = reg_by_name[hname]
        hfile = os.path.join(sh, "verif_harness", meta["file"])
        with open(hfile, "a") as fh:
            for t in tests:
                m = re.search(r"fn (kani_concrete_playback_\w+)", t)
                if not m or m.group(1) in owner:
                    continue
                owner[m.group(1)] = hname
                fh.write("\n" + t + "\n")
    res = {h: {} for h in tests_by_harness}
    for n, h in owner.items():
        res[h][n] = {"dev": None, "release": None}
    # `cargo kani playback` (0.68) has no --release and forces overflow checks on, so the
    # native replay is dev-profile only; release behaviour of a finding is examined by hand.
    for profile in ("dev",):
        logf = os.path.join(logdir, "replay_%s.log" % profile)
        pbt = os.path.join(CACHE, "playback-target-" + profile)
        if TD_GROUP:
            if not os.path.isdir(pbt + "-" + TD_GROUP) and os.path.isdir(pbt):
                subprocess.run(["cp", "-a", pbt, pbt + "-" + TD_GROUP])
            pbt = pbt + "-" + TD_GROUP
        cmd = ["env", "CARGO_TARGET_DIR=" + pbt]
        if profile == "release":
            # `cargo kani playback` has no --release; the release semantics (optimised, no
            # overflow checks, no debug assertions) are selected through profile overrides
            cmd += ["CARGO_PROFILE_DEV_OPT_LEVEL=3", "CARGO_PROFILE_DEV_DEBUG_ASSERTIONS=false",
                    "CARGO_PROFILE_DEV_OVERFLOW_CHECKS=false", "CARGO_PROFILE_DEV_DEBUG=0"]
        cmd += ["cargo", "kani", "playback", "-Z", "concrete-playback", "--features", "decode"]
        cmd += ["--", "kani_concrete_playback", "--test-threads", "4"]
        run(cmd, sh, logf, timeout=3600, limit_mem=False)
        txt = open(logf).read()
        for mm in re.finditer(r"^test (\S+) \.\.\. (ok|FAILED)", txt, re.M):
            tn = mm.group(1).split("::")[-1]
            if tn in owner:
                res[owner[tn]][tn][profile] = (mm.group(2) == "FAILED")
    return res


def run_native_oracle(sh, meta, logdir):
    """Runs the native property-level oracle test named by `//@ oracle:` (a #[test] in
    /verif/harness/native/<module>.rs, compiled into the shadow crate).  Returns
    True if the oracle test FAILS (= the property violation is reproduced through the
    public API), False if it passes, None if it did not run."""
    name = meta["oracle"]
    logf = os.path.join(logdir, "oracle_%s.log" % name)
    tdir = os.path.join(CACHE, "native-target")
    if TD_GROUP:
        if not os.path.isdir(tdir + "-" + TD_GROUP) and os.path.isdir(tdir):
            subprocess.run(["cp", "-a", tdir, tdir + "-" + TD_GROUP])
        tdir = tdir + "-" + TD_GROUP
    cmd = ["env", "CARGO_TARGET_DIR=" + tdir, "cargo", "test", "--offline", "--lib", "--features", "decode",
           "--", "verif_native::" + name, "--test-threads", "2"]
    run(cmd, sh, logf, timeout=1800, limit_mem=False)
    txt = open(logf).read()
    m = re.search(r"test result: \w+\. (\d+) passed; (\d+) failed", txt)
    if not m or int(m.group(1)) + int(m.group(2)) == 0:
        return None, logf
    return int(m.group(2)) > 0, logf


def load_known():
    if not os.path.exists(KNOWN):
        return {"findings": [], "fixed": []}
    return json.load(open(KNOWN))


# --------------------------------------------------------------------------
def main():
    ap = argparse.ArgumentParser()
    ap.add_argument("prop", nargs="?")
    ap.add_argument("--tier", default=os.environ.get("VERIF_TIER", "quick"))
    ap.add_argument("--only", action="append")
    ap.add_argument("--keep", action="store_true")
    ap.add_argument("--jobs", type=int, default=int(os.environ.get("VERIF_JOBS", "16")))
    ap.add_argument("--list", action="store_true")
    ap.add_argument("--replay")
    ap.add_argument("--setup", action="store_true")
    ap.add_argument("--no-evidence", action="store_true")
    ap.add_argument("--timeout", type=int)
    args = ap.parse_args()
    seed = int(os.environ.get("VERIF_SEED", "0") or 0)
    tier = "thorough" if args.tier == "thorough" else "quick"
    reg = load_registry()

    if args.list:
        for n, m in sorted(reg.items()):
            if args.prop and m["prop"] != args.prop:
                continue
            print("%-4s %-9s %-48s %s" % (m["prop"], m["tier"], n, m.get("drives", "")))
        return 0
    if args.replay:
        return replay_stored(args.replay, reg)
    if args.setup:
        return setup(reg)
    if not args.prop:
        ap.error("property id required")
    prop = args.prop.upper()

    sel = [m for m in reg.values() if m["prop"] == prop or prop in m.get("also", "").split()]
    if tier == "quick":
        sel = [m for m in sel if m["tier"] == "quick"]
    # seed rotation: within a `rotate: <group>` group the quick tier runs one member
    if tier == "quick":
        groups = {}
        for m in sel:
            if "rotate" in m:
                groups.setdefault(m["rotate"], []).append(m)
        drop = set()
        for g, ms in groups.items():
            ms.sort(key=lambda x: x["name"])
            keep = ms[seed % len(ms)]["name"]
            drop |= {x["name"] for x in ms if x["name"] != keep}
        sel = [m for m in sel if m["name"] not in drop]
    if args.only:
        sel = [m for m in sel if any(o in m["name"] for o in args.only)]
    if not sel:
        log("no harness selected for", prop)
        return 2
    sel.sort(key=lambda m: m["name"])

    t0 = time.time()
    os.makedirs(CACHE, exist_ok=True)
    os.makedirs(EVIDENCE_DIR, exist_ok=True)
    tmp = tempfile.mkdtemp(prefix="flacenc-verif-%s-" % prop.lower(), dir=os.environ.get("VERIF_TMP", "/var/tmp"))
    logdir = os.path.join(tmp, "logs")
    os.makedirs(logdir)
    rc = 2
    try:
        rc = run_property(prop, tier, seed, sel, tmp, logdir, args, t0)
    finally:
        if args.keep:
            log("kept scratch dir", tmp)
        else:
            shutil.rmtree(tmp, ignore_errors=True)
    return rc


def target_dir_for(group):
    """One Kani target dir per property (so checks of different properties can run
    concurrently); seeded from the base dir warmed by --setup to avoid rebuilding deps."""
    base = os.path.join(CACHE, "kani-target")
    if not group:
        return base
    d = base + "-" + group
    if not os.path.isdir(d) and os.path.isdir(base):
        subprocess.run(["cp", "-a", base, d])
    return d


TD_GROUP = ""


def run_property(prop, tier, seed, sel, tmp, logdir, args, t0):
    global TD_GROUP
    # VERIF_TAG separates the build caches of concurrent runs (e.g. a run against a scratch
    # worktree given by VERIF_REPO while the regular check of the same property is running)
    TD_GROUP = prop + os.environ.get("VERIF_TAG", "")
    sh = make_shadow(tmp, sorted({m["file"] for m in sel}))
    timeout_s = args.timeout or TIER_TIMEOUT[tier]
    known = load_known()
    # group by cbmc_args (one cargo-kani invocation per distinct argument set)
    groups = {}
    for m in sel:
        groups.setdefault((m.get("cbmc_args", ""), m.get("features", "")), []).append(m)
    results = {}
    build_failed = False
    for gi, ((cargs, feats), ms) in enumerate(sorted(groups.items())):
        out_json = os.path.join(tmp, "out_%d.json" % gi)
        logf = os.path.join(logdir, "kani_%d.log" % gi)
        log("[%s] kani: %d harness(es)%s, per-harness timeout %ds, -j %d" % (
            prop, len(ms), (" cbmc-args=" + cargs) if cargs else "", timeout_s, args.jobs))
        kani_invoke(sh, [m["fq"] for m in ms], out_json, logf, timeout_s, args.jobs,
                    target_dir_for(TD_GROUP + ("-" + feats if feats else "")), cbmc_args=cargs.split() if cargs else None, features=feats)
        r = parse_results(out_json)
        txt = open(logf).read()
        if r is None and len(ms) > 1 and "panicked at kani-driver" in txt:
            # a CBMC crash (e.g. out of memory) in one harness makes kani-driver abort the whole
            # invocation without JSON: fall back to one invocation per harness
            log("[%s] kani-driver aborted; re-running the %d harnesses one by one" % (prop, len(ms)))
            r = {}
            for hi, m1 in enumerate(ms):
                oj = os.path.join(tmp, "out_%d_%d.json" % (gi, hi))
                kani_invoke(sh, [m1["fq"]], oj, os.path.join(logdir, "kani_%d_%d.log" % (gi, hi)), timeout_s, 1,
                            target_dir_for(TD_GROUP + ("-" + feats if feats else "")), cbmc_args=cargs.split() if cargs else None, features=feats)
                r1 = parse_results(oj)
                if r1:
                    r.update(r1)
        if r is None or (not r and "error" in txt):
            build_failed = True
            log("[%s] UNDECIDED: cargo kani produced no results (harness does not compile against the current tree?)" % prop)
            tail = "\n".join(txt.split("\n")[-60:])
            errs = re.findall(r"^(error(?:\[E\d+\])?: .*(?:\n\s+-->.*)?)", txt, re.M)
            log("\n".join(errs[:12]) if errs else tail)
            continue
        results.update(r)

    records = []
    candidates = []
    violations = []
    known_hits = []
    undecided = []
    ok = 0
    obligations = discharged = 0
    nontrivial = 0
    solver_s = 0.0
    for m in sel:
        r = results.get(m["fq"])
        rec = {"harness": m["name"], "tier": m["tier"], "functions_encoded": m.get("drives", ""),
               "bound": m.get("bound", ""), "assumes": m.get("assumes", ""), "stubs": m.get("stubs", ""),
               "asserts": m.get("asserts", "")}
        if r is None:
            rec["verdict"] = "undecided (no result: build failure or driver abort)"
            undecided.append(m["name"])
            records.append(rec)
            continue
        p = {k: (v or 0) for k, v in (r["props"] or {}).items()}
        rec.update({"checks_total": p.get("total_properties", 0), "checks_failed": p.get("failed", 0),
                    "checks_unreachable": p.get("unreachable", 0), "checks_undetermined": p.get("undetermined", 0),
                    "covers_satisfied": p.get("satisfied", 0), "covers_unsatisfiable": p.get("unsatisfiable", 0),
                    "time_s": round(r["duration_s"], 2),
                    "solver_s": round(r["cbmc_stats"].get("runtime_solver_s", 0.0) or 0.0, 3),
                    "symex_s": round(r["cbmc_stats"].get("runtime_symex_s", 0.0) or 0.0, 3),
                    "vccs": r["cbmc_stats"].get("vccs_generated", 0),
                    "ssa_steps": r["cbmc_stats"].get("size_program_expression", 0)})
        solver_s += rec["solver_s"]
        expect_fail = m.get("expect", "") == "fail"
        if r["exit_status"] in ("timeout", "out_of_memory") or (r["status"] != "Success" and not r["failed_checks"] and not r["unsat_covers"] and p.get("failed", 0) == 0 and p.get("unsatisfiable", 0) == 0):
            rec["verdict"] = "undecided (%s)" % (r["exit_status"] or "cbmc error")
            undecided.append(m["name"])
            records.append(rec)
            continue
        obligations += p.get("total_properties", 0)
        if expect_fail:
            # vacuity twin: the final assert(false) must be violated
            if p.get("failed", 0) >= 1:
                rec["verdict"] = "reachability witness violated as required"
                discharged += p.get("total_properties", 0)
                ok += 1
            else:
                rec["verdict"] = "VACUOUS: reachability witness not violated"
                undecided.append(m["name"])
            records.append(rec)
            continue
        if p.get("failed", 0) == 0 and r["status"] == "Success":
            if p.get("unsatisfiable", 0) > 0 or (p.get("satisfied", 0) == 0 and m.get("cover", "") != "none"):
                rec["verdict"] = "VACUOUS: cover witness unsatisfiable/missing (%s)" % "; ".join(r["unsat_covers"])
                undecided.append(m["name"])
            else:
                rec["verdict"] = "holds within bound"
                discharged += p.get("total_properties", 0)
                ok += 1
                nontrivial += 1
            records.append(rec)
            continue
        # failed
        discharged += p.get("total_properties", 0) - p.get("failed", 0)
        rec["failed_checks"] = r["failed_checks"][:20]
        if p.get("failed", 0) == 0:
            rec["verdict"] = "VACUOUS: cover witness unsatisfiable (%s)" % "; ".join(r["unsat_covers"])
            undecided.append(m["name"])
            records.append(rec)
            continue
        finding = m.get("finding")
        if finding:
            f = next((x for x in known.get("findings", []) if x["id"] == finding), None)
            if f is not None:
                rec["verdict"] = "fails as recorded in known finding " + finding
                known_hits.append((f, m))
                nontrivial += 1
                records.append(rec)
                continue
        # genuine candidate: counterexample extraction and native replay are batched below
        log("[%s] harness %s FAILED in the solver: %s" % (prop, m["name"], "; ".join(
            "%s (%s:%s)" % (c["description"], c["file"], c["line"]) for c in r["failed_checks"][:4])))
        rec["verdict"] = "failed in the solver (replay pending)"
        candidates.append((m, r, rec))
        records.append(rec)

    if candidates and os.environ.get("VERIF_NO_REPLAY"):
        for m, r, rec in candidates:
            rec["verdict"] = "failed in the solver (replay disabled by VERIF_NO_REPLAY): " + "; ".join(
                "%s (%s:%s)" % (c["description"], c["file"], c["line"]) for c in r["failed_checks"][:6])
            undecided.append(m["name"])
        candidates = []
    if candidates:
        MAX_REPLAY = int(os.environ.get("VERIF_MAX_REPLAY", "3"))
        cands = sorted(candidates, key=lambda c: c[1]["duration_s"])
        todo, skipped = cands[:MAX_REPLAY], cands[MAX_REPLAY:]
        # one candidate at a time, fastest first; stop at the first reproduced violation
        # (counterexample extraction costs up to 20x the plain check because of the trace)
        tests_by, rep = {}, {}
        done = []
        oracle_done = []
        for cand in [c for c in todo if c[0].get("oracle")]:
            todo.remove(cand)
            m, r, rec = cand
            res, olog = run_native_oracle(sh, m, logdir)
            oracle_done.append(cand)
            os.makedirs(os.path.join(REPLAY_DIR, prop), exist_ok=True)
            rpath = os.path.join(REPLAY_DIR, prop, m["name"] + ".rs")
            with open(rpath, "w") as fh:
                fh.write("// harness %s (property %s) failed in the solver on %s\n" % (m["name"], prop, repo_state()))
                fh.write("// failed checks: %s\n" % json.dumps(r["failed_checks"][:8]))
                fh.write("// the harness uses code stubs, so the violation is confirmed by the native property-level oracle\n")
                fh.write("// test `%s` in /verif/harness/native/%s (fails = reproduced): %s\n" % (m["oracle"], m["file"], res))
                fh.write("//@replay-harness: %s\n//@replay-oracle: %s\n" % (m["name"], m["oracle"]))
                if res:
                    mm = re.search(r"(panicked at [^\n]*\n[^\n]*)", open(olog).read())
                    fh.write("// %s\n" % (mm.group(1).replace("\n", " | ") if mm else ""))
            if res:
                rec["verdict"] = "VIOLATION (solver counterexample; property-level native oracle `%s` fails on the real code)" % m["oracle"]
                violations.append((m, rpath, r["failed_checks"]))
            else:
                rec["verdict"] = "failed in the solver but the native oracle `%s` %s (harness/stub suspect)" % (
                    m["oracle"], "passes" if res is False else "did not run")
                undecided.append(m["name"])
        for cand in ([] if violations else todo):
            tb = extract_playback_batch(sh, [cand[0]], target_dir_for(TD_GROUP), logdir, timeout_s, args.jobs)
            done.append(cand)
            if tb:
                tests_by.update(tb)
                rp = native_replay_batch(sh, {cand[0]["name"]: cand[0]}, tb, logdir)
                rep.update(rp)
                if any(v.get("dev") for v in rp.get(cand[0]["name"], {}).values()):
                    break
        skipped = [c for c in todo if c not in done] + skipped
        todo = done
        for m, r, rec in todo:
            tests = tests_by.get(m["name"], [])
            if not tests:
                rec["verdict"] = "failed in the solver; counterexample could not be extracted"
                undecided.append(m["name"])
                continue
            rr = rep.get(m["name"], {})
            rec["replay"] = rr
            reproduced = any(v.get("dev") or v.get("release") for v in rr.values())
            os.makedirs(os.path.join(REPLAY_DIR, prop), exist_ok=True)
            rpath = os.path.join(REPLAY_DIR, prop, m["name"] + ".rs")
            with open(rpath, "w") as fh:
                fh.write("// counterexample for harness %s (property %s) found by CBMC on %s\n" % (m["name"], prop, repo_state()))
                fh.write("// failed checks: %s\n" % json.dumps(r["failed_checks"][:8]))
                fh.write("// native replay (test fails = reproduced): %s\n" % json.dumps(rr))
                fh.write("// replay: %s/check.py --replay %s\n" % (VERIF, rpath))
                fh.write("//@replay-harness: %s\n" % m["name"])
                for t in tests:
                    fh.write(t + "\n")
            if reproduced:
                rec["verdict"] = "VIOLATION (solver counterexample reproduced natively against the real code)"
                violations.append((m, rpath, r["failed_checks"]))
            else:
                rec["verdict"] = "solver counterexample did NOT reproduce natively (harness/model suspect)"
                undecided.append(m["name"])
        for m, r, rec in skipped:
            if violations:
                rec["verdict"] = "failed in the solver; not replayed (a violation of this property is already confirmed in this run)"
            else:
                rec["verdict"] = "failed in the solver; replay skipped (more than %d failing harnesses in this run)" % MAX_REPLAY
                undecided.append(m["name"])

    wall = time.time() - t0
    for f, m in known_hits:
        log("KNOWN-FINDING: property=%s %s [harness %s]" % (prop, f["what"], m["name"]))
    for m, rpath, fc in violations:
        log("VIOLATION property=%s replay=%s" % (prop, rpath))
        log("    harness %s: %s" % (m["name"], "; ".join("%s (%s:%s in %s)" % (c["description"], c["file"], c["line"], c["function"]) for c in fc[:4])))
    for r in records:
        log("  %-52s %-8s %7ss  %s" % (r["harness"], r.get("tier", ""), r.get("time_s", "-"), r["verdict"]))
    if undecided:
        log("[%s] undecided harnesses: %s" % (prop, ", ".join(undecided)))

    if not args.no_evidence and not args.only:
        assumptions = sorted({a.strip() for m in sel for a in (m.get("assumes", "") + ";" + ";".join("stub: " + s for s in m.get("stubs", "").split(";") if s.strip())).split(";") if a.strip()})
        assumptions += ["reusable! buffers modelled by a lazily initialised leaked global RefCell under cfg(kani) (Kani 0.68 ICE on lazy thread_local!)",
                        "Kani MIR->GOTO translation, CBMC 6.11.0, CaDiCaL; dev-profile semantics (overflow checks on)",
                        "bounds listed per sample; behaviour outside the bounds is outside the claim (DESIGN.md section 5)"]
        ev = {
            "property_id": prop, "tier": tier, "seed": seed, "level": "model_checking",
            "coverage": {
                "evaluations": len(records),
                "distinct_nontrivial": nontrivial,
                "rule": "one evaluation = one Kani proof harness (a CBMC/CaDiCaL query over all inputs inside the stated bound); it counts as non-trivial when the solver finished, every assertion and unwinding assertion held, and the harness's kani::cover! reachability witness was satisfiable (or it failed exactly as a recorded known finding)",
                "samples": records,
                "obligations": obligations, "discharged": discharged,
                # model_checking keys: measured by CBMC on this run (bounded model checking has no
                # explicit state graph; these are its symbolic counterparts)
                "states": sum(r.get("ssa_steps", 0) or 0 for r in records if "undecided" not in r.get("verdict", "")),
                "transitions": sum(r.get("vccs", 0) or 0 for r in records if "undecided" not in r.get("verdict", "")),
                "traces_validated_against_impl": sum(1 for r in records if r.get("replay") or "native oracle" in r.get("verdict", "")),
                "explanation": "states = SSA steps of the unwound programs CBMC executed symbolically (each step is one symbolic program state standing for all inputs inside the bound); transitions = verification conditions generated along them and handed to the SAT solver; traces_validated_against_impl = solver counterexamples replayed natively against the real crate in this run (0 when every harness holds)",
                "checker_cmd": "cargo kani (Kani 0.68.0, CBMC 6.11.0, CaDiCaL) on a shadow copy of /repo/src",
                "solver_time_s": round(solver_s, 2),
                "undecided": undecided,
                "known_findings_hit": [f["id"] for f, _ in known_hits],
                "repo_state": repo_state(), "src_digest": src_digest(),
                "exhaustive": False,
            },
            "assumptions": assumptions,
            "wall_s": round(wall, 1),
            "violations": len(violations),
        }
        with open(os.path.join(EVIDENCE_DIR, prop + ".json"), "w") as fh:
            json.dump(ev, fh, indent=1)
    log("[%s] tier=%s harnesses=%d ok=%d undecided=%d violations=%d known=%d wall=%.0fs" % (
        prop, tier, len(records), ok, len(undecided), len(violations), len(known_hits), wall))
    if violations:
        return 1
    if build_failed or ok == 0 or any("did NOT reproduce" in r["verdict"] or "VACUOUS" in r["verdict"] for r in records):
        return 2
    # too many undecided harnesses: nothing is claimed
    if len(undecided) * 2 > len(records):
        return 2
    return 0


def setup(reg):
    """Warm the dependency caches (Kani goto build of the dependencies, native playback
    build) so that later checks only rebuild the flacenc crate itself."""
    os.makedirs(CACHE, exist_ok=True)
    tmp = tempfile.mkdtemp(prefix="flacenc-verif-setup-", dir=os.environ.get("VERIF_TMP", "/var/tmp"))
    try:
        sh = make_shadow(tmp, ["bitsink.rs"])
        logdir = os.path.join(tmp, "logs")
        os.makedirs(logdir)
        m = reg["c11_constructors"]
        out_json = os.path.join(tmp, "out.json")
        kani_invoke(sh, [m["fq"]], out_json, os.path.join(logdir, "kani.log"), 300, 2, target_dir_for(""))
        r = parse_results(out_json)
        ok = bool(r) and all(v["status"] == "Success" for v in r.values())
        log("setup: kani build + smoke harness:", "ok" if ok else "FAILED")
        if not ok:
            log(open(os.path.join(logdir, "kani.log")).read()[-3000:])
        cmd = ["env", "CARGO_TARGET_DIR=" + os.path.join(CACHE, "playback-target-dev"),
               "cargo", "kani", "playback", "-Z", "concrete-playback", "--features", "decode", "--only-codegen"]
        rc = run(cmd, sh, os.path.join(logdir, "pb.log"), timeout=1800, limit_mem=False)
        log("setup: native playback build:", "ok" if rc == 0 else "rc=%d" % rc)
        return 0 if ok else 1
    finally:
        shutil.rmtree(tmp, ignore_errors=True)


def replay_stored(path, reg):
    txt = open(path).read()
    m = re.search(r"//@replay-harness: (\w+)", txt)
    if not m or m.group(1) not in reg:
        log("unknown harness in replay file")
        return 2
    meta = reg[m.group(1)]
    if "//@replay-oracle:" in txt:
        tmp = tempfile.mkdtemp(prefix="flacenc-verif-replay-", dir=os.environ.get("VERIF_TMP", "/var/tmp"))
        try:
            sh = make_shadow(tmp, [meta["file"]])
            logdir = os.path.join(tmp, "logs")
            os.makedirs(logdir)
            res, olog = run_native_oracle(sh, meta, logdir)
            log("native oracle %s: %s" % (meta["oracle"], "REPRODUCED (oracle test fails)" if res else ("passes" if res is False else "did not run")))
            if res:
                mm = re.search(r"(panicked at [^\n]*\n[^\n]*)", open(olog).read())
                if mm:
                    log("    " + mm.group(1).replace("\n", " | "))
            return 1 if res else 0
        finally:
            shutil.rmtree(tmp, ignore_errors=True)
    tests = re.findall(r"((?:///.*\n)*#\[test\]\nfn kani_concrete_playback_.*?\n}\n)", txt, re.S)
    tmp = tempfile.mkdtemp(prefix="flacenc-verif-replay-", dir=os.environ.get("VERIF_TMP", "/var/tmp"))
    try:
        sh = make_shadow(tmp, [meta["file"]])
        logdir = os.path.join(tmp, "logs")
        os.makedirs(logdir)
        rep = native_replay_batch(sh, {meta["name"]: meta}, {meta["name"]: tests}, logdir)
        any_rep = False
        for tn, v in rep.get(meta["name"], {}).items():
            for prof in ("dev",):
                st = v.get(prof)
                log("replay %s [%s]: %s" % (tn, prof, "REPRODUCED (test fails)" if st else ("passes" if st is False else "did not run")))
                any_rep = any_rep or bool(st)
        for prof in ("dev",):
            t = open(os.path.join(logdir, "replay_%s.log" % prof)).read()
            for mm in re.finditer(r"(panicked at [^\n]*\n[^\n]*)", t):
                log("    [%s] %s" % (prof, mm.group(1).replace("\n", " | ")))
        return 1 if any_rep else 0
    finally:
        shutil.rmtree(tmp, ignore_errors=True)


if __name__ == "__main__":
    sys.exit(main())
